"""C11 – metadata values are type-normalised and survive storage unchanged.

R11.1 funnel: every key-level mutation route of ConfigurationDict reaches the
      validating ``__setitem__`` (own mutators, inherited UserDict mutators
      that write ``self.data`` directly, key normalisation through ``_k`` in
      every key-taking method); ``Configuration`` only ever creates
      section-aware dictionaries and fills them through ``update``; nothing
      outside config.py touches ``.data`` / ``_cfg`` of a configuration or
      calls the base ``__setitem__``.  The modelled ``__setitem__`` stores the
      converted value under the lower-case key.
R11.2 table totality: every entry of CFG_METADATA / CFG_ANALYSIS is
      ``[lower-case key, converter, description]`` with a converter in
      {str} ∪ func_types; the derived dictionaries (config_funcs, config_types,
      config_descr, config_keys – obtained by interpreting the module's own
      loops) agree with the tables; assigning through the modelled funnel
      stores the converted value for the key and its upper-case spelling; the
      resolvers of meta_logic (exists / func / type) agree on every
      online_filter pattern key.
R11.3 rejection paths: unknown key, unknown section, empty string and None
      each emit a warning and never reach the store (evaluated on the
      syntax trees of ``__setitem__`` and ``verify_section_key``).
R11.4 writer / reader (both interpreted on model data, not matched
      syntactically): ``store_metadata`` pipes every non-user value through
      ``get_config_value_func(sec, ck)`` of the same section/key, decodes
      bytes, refuses unknown sections/keys; ``parse_config`` (given a path
      or an open file) decodes bytes and assigns every attribute through a
      checking ``Configuration``; ``load_from_file``
      converts known keys, and – interpreted on a model file with mixed-case
      keys – yields what item assignment of the same text stores; export carries all CFG_METADATA sections + user.
R11.5 type closure of the converters: evaluated over modelled Python / numpy
      types, every converter accepts each representative of its declared
      output types (func_types) and what the HDF5 attribute layer hands back
      for its own outputs, returns a declared type and is idempotent.
"""
from __future__ import annotations

import ast
import copy as _copy
import numbers

from ..core import (AnalysisError, call_name, const_str, dotted, find_calls,
                    is_self_attr, kwarg, last_attr, names_in, short, txt,
                    walk)
from ..lib_C11 import (NP, Func, Interp, ModelRaise, ModuleInterp, Namespace,
                       NdArray, NpBool, NpFloat, NpInt, same_value, type_tag)

ASSUMPTIONS = [
    "NOT decided: value equality through the HDF5 attribute layer itself "
    "(h5py is trusted to return np.bool_/np.int64/np.float64/str/ndarray "
    "for bool/int/float/str/sequence attributes – the table HDF5_IMAGE).",
    "NOT decided: the text serialisation (Configuration.tostring / "
    "load_from_file) being an inverse pair; section-level assignment "
    "`config[section] = mapping`; precision of int(float(x)) above 2**53.",
    "R11.5/R11.3 interpret the syntax trees of the converters, of "
    "meta_logic and of ConfigurationDict.__setitem__/verify_section_key "
    "over modelled values (numpy scalar hierarchy: np.float64 is a float, "
    "np.bool_ is not a bool/Number, np.int64 is an Integral but not an "
    "int); representatives per declared type are a table in the rule; the "
    "thorough tier compares the model's outcomes with the imported package.",
    "R11.2 description law: int/float is derived from an entry's own "
    "description only where it is explicit (units [min] [s] [µs] [µm] [nm] "
    "[°C] [Pa*s] [µL/s] [V] [%] [1/pix] => fractions kept; [px] [pix], "
    "'number of', 'count', 'Index of' => integers); 39 of 108 entries today, "
    "the others (no unit, [Hz], names, switches) are NOT decided and are "
    "listed in the evidence notes.",
    "R11.5 ownership: a converter must not return its mutable argument "
    "itself (np.asarray / copy=False modelled as aliasing); aliasing of "
    "nested elements is not decided.",
    "collections.UserDict / MutableMapping are trusted: update, setdefault, "
    "__init__, copy route through __setitem__; __ior__ writes self.data.",
]

CONF = "dclab/rtdc_dataset/config.py"
MC = "dclab/definitions/meta_const.py"
ML = "dclab/definitions/meta_logic.py"
MP = "dclab/definitions/meta_parse.py"
WR = "dclab/rtdc_dataset/writer.py"
H5 = "dclab/rtdc_dataset/fmt_hdf5/base.py"
EXP = "dclab/rtdc_dataset/export.py"

KNOWN_FEATS = {"area_um", "deform", "bright_avg"}

#: UserDict / MutableMapping mutators (CPython) and how they store
USERDICT_DIRECT = {"__ior__"}            # write self.data without __setitem__
USERDICT_VIA_SETITEM = {"update", "setdefault", "__init__", "copy"}


# ----------------------------------------------------------------------
# model of dclab.definitions (interpreted, not imported)

def load_definitions(repo):
    cache = {}

    class Registry(list):
        """the (mutable) feature registry: feat_const.scalar_feature_names"""

        def add(self, f):
            if f not in self:
                self.append(f)

        def discard(self, f):
            while f in self:
                self.remove(f)
    registry = Registry(sorted(KNOWN_FEATS))

    def feat_const_stub():
        return Namespace(
            "feat_const", scalar_feature_names=registry,
            feature_names=registry, feature_labels=[],
            feature_name2label={}, FEATURES_SCALAR=[],
            FEATURES_NON_SCALAR=[], FLUOR_TRACES=[])

    def importer(mod, level, name):
        if level == 0:
            if mod == "numbers":
                val = numbers
            elif mod == "numpy":
                val = NP
            elif mod == "copy":
                val = Namespace("copy", deepcopy=_copy.deepcopy)
            elif mod in ("collections", "itertools", "operator"):
                from ..lib_C11 import STDLIB
                val = STDLIB[mod]
            elif mod == "re":
                import re
                val = Namespace("re", compile=re.compile, match=re.match,
                                fullmatch=re.fullmatch, search=re.search)
            elif mod == "functools":
                import functools
                val = Namespace("functools", lru_cache=functools.lru_cache,
                                cache=functools.cache,
                                wraps=functools.wraps,
                                partial=functools.partial)
            else:
                raise AnalysisError(f"model: import of {mod}")
            return val if name is None else getattr(val, name)
        if level != 1:
            raise AnalysisError(f"model: relative import level {level}")
        if mod == "feat_const":
            ns = feat_const_stub()
        else:
            ns = get_module(mod)
        if name is None:
            return ns
        if not hasattr(ns, name):
            raise AnalysisError(f"{mod} does not define `{name}` "
                                f"(imported by a definitions module)")
        return getattr(ns, name)

    def get_module(mod):
        if mod not in cache:
            rel = f"dclab/definitions/{mod}.py"
            mi = ModuleInterp(importer)
            globs = mi.run_module(repo.tree(rel), mod)
            cache[mod] = Namespace(mod, **globs)
        return cache[mod]

    mp = get_module("meta_parse")
    mc = get_module("meta_const")
    ml = get_module("meta_logic")
    ml.__dict__["_registry"] = registry
    ml.__dict__["_feat_logic"] = get_module("feat_logic")
    return mp, mc, ml


def conv_name(f):
    return getattr(f, "__name__", repr(f))


# ----------------------------------------------------------------------
# representatives

def t_name(t):
    for cls, nm in ((NpBool, "np.bool_"), (NpInt, "np.int64"),
                    (NpFloat, "np.float64"), (NdArray, "np.ndarray"),
                    (numbers.Integral, "numbers.Integral"),
                    (numbers.Number, "numbers.Number")):
        if t is cls:
            return nm
    return getattr(t, "__name__", repr(t))


NOEXP = object()


def _types_txt(typ):
    if typ is None:
        return "None"
    if isinstance(typ, tuple):
        return "(" + ", ".join(t_name(t) for t in typ) + ")"
    return t_name(typ)


def reps_for_type(t):
    """(representatives, scalar?) of a declared output type; a string
    representative is a pair (text, value it denotes)"""
    if t is bool:
        return [True, False, ("True", True), ("false", False), ("1", True),
                ("0", False)], True
    if t is NpBool:
        return [NpBool(True), NpBool(False)], True
    if t is float:
        return [0.0, 1.5, NpFloat(0.0), NpFloat(1.5), ("0", 0.0),
                ("2.5", 2.5)], True
    if t is numbers.Integral or t is int:
        return [0, 3, NpInt(0), NpInt(3), ("3", 3), ("0", 0),
                ("3.0", 3)], True
    if t is numbers.Number:
        return [0, 3, 1.5, NpInt(3), NpFloat(1.5), ("3", 3.0),
                ("2.5", 2.5)], True
    if t is str:
        return ["Abc"], True
    if t is list:
        return [[0, 1, 2], []], False
    if t is tuple:
        return [(1.0, 2.0)], False
    if t is NdArray:
        return [NdArray.of([1.0, 2.0]),
                NdArray.of([[0.0, 0.0], [1.0, 0.0], [1.0, 1.0]])], False
    raise AnalysisError(f"no representatives for declared type {t!r}")


def hdf5_image(v):
    """HDF5_IMAGE: what h5py returns for an attribute written as `v`"""
    if isinstance(v, (NpBool, NpInt, NpFloat, NdArray, str)):
        return v
    if isinstance(v, bool):
        return NpBool(v)
    if isinstance(v, int):
        return NpInt(v)
    if isinstance(v, float):
        return NpFloat(v)
    if isinstance(v, (list, tuple)):
        return NdArray.of(v)
    raise AnalysisError(f"HDF5 image of {type(v).__name__} not modelled")


def declared_types(conv, func_types):
    if conv in func_types:
        d = func_types[conv]
    elif isinstance(conv, type):
        d = conv
    else:
        return None
    return tuple(d) if isinstance(d, (tuple, list)) else (d,)


def _plain(v):
    """JSON-able value (numbers as float, bools as bool, nested lists)"""
    if isinstance(v, (list, tuple, NdArray)):
        return [_plain(x) for x in v]
    if isinstance(v, (bool, NpBool)):
        return bool(v)
    if isinstance(v, str):
        return v
    return float(v)


def _py_equal(a, b):
    """`==` of the real objects, element-wise for sequences (True == 1.0,
    (1., 2.) equals array([1., 2.]))"""
    seq = (list, tuple, NdArray)
    if isinstance(a, seq) or isinstance(b, seq):
        if not (isinstance(a, seq) and isinstance(b, seq)):
            return False
        la, lb = list(a), list(b)
        return len(la) == len(lb) and all(
            _py_equal(x, y) for x, y in zip(la, lb))
    if isinstance(a, str) or isinstance(b, str):
        return isinstance(a, str) and isinstance(b, str) and a == b
    try:
        return float(a) == float(b)
    except (TypeError, ValueError):
        return False


def _flat(v):
    """flattened numbers of a (nested) value, None if not numeric"""
    if isinstance(v, (list, tuple, NdArray)):
        out = []
        try:
            items = list(v) if not (isinstance(v, NdArray)
                                    and v.ndim == 0) else [v.item()]
        except TypeError:
            return None
        for x in items:
            f = _flat(x)
            if f is None:
                return None
            out += f
        return out
    if isinstance(v, (str, bytes)) or v is None:
        return None
    try:
        return [float(v)]
    except (TypeError, ValueError):
        return None


def _denoted(x):
    """the numbers an input denotes: a number itself, the numbers written
    in a text (separated by , blank [ ] ( )), the elements of a sequence"""
    import re
    if isinstance(x, bytes):
        try:
            x = x.decode("ascii")
        except UnicodeDecodeError:
            return None
    if isinstance(x, str):
        parts = [p for p in re.split(r"[,\s\[\]()]+", x) if p]
        try:
            return [float(p) for p in parts]
        except ValueError:
            return None
    return _flat(x)


def run_conv(conv, x):
    """-> ('ok', value) | ('raise', name)"""
    try:
        if isinstance(conv, Func):
            return "ok", conv(x)
        try:
            return "ok", conv(x)
        except (ValueError, TypeError) as e:
            return "raise", type(e).__name__
    except ModelRaise as e:
        return "raise", e.name


# ----------------------------------------------------------------------
# R11.5

def r115(ctx, repo, mp, mc, ml, storable):
    func_types = mp.func_types
    convs = list(func_types.keys())
    for c in storable:
        if c not in convs:
            convs.append(c)
    n_eval = 0
    evals = ctx.stats.setdefault("_evals", [])
    for conv in convs:
        name = conv_name(conv)
        decl = declared_types(conv, func_types)
        if decl is None:
            continue   # reported by R11.2
        node = repo.func(MP, name, missing_ok=True) or repo.module_assign(
            MP, "func_types")
        inputs = []   # [value, origin, expected values]
        denotes = {}  # text representative -> value it denotes

        def add(v, origin, expect=None):
            for ent in inputs:
                w = ent[0]
                if type_tag(w) == type_tag(v) and repr(w) == repr(v):
                    if expect is not None:
                        ent[2].append(expect)
                        if "HDF5" not in ent[1]:
                            ent[1] += " and " + origin
                    return
            inputs.append([v, origin, [] if expect is None else [expect]])
        per_type_ok = {}
        for t in decl:
            reps, scalar = reps_for_type(t)
            for x in reps:
                if isinstance(x, tuple) and scalar:
                    if not (isinstance(conv, Func) or conv is float):
                        continue
                    x, val = x
                    # numeric text denotes a number unless the converter
                    # may also return a bool (bool takes precedence there)
                    if t is bool or bool not in decl:
                        denotes.setdefault(x, val)
                add(x, f"declared type {t_name(t)}")
            per_type_ok[t] = (reps, scalar)
        done = 0
        accepted_by_type = {t: 0 for t in decl}
        while done < len(inputs):
            x, origin, expects = inputs[done]
            done += 1
            n_eval += 1
            st, y = run_conv(conv, x)
            evals.append((name, repr(x), st, type_tag(y) if st == "ok"
                          else y, _plain(y) if st == "ok" else None))
            scalar = not isinstance(x, (list, tuple, NdArray))
            label = f"accepts {x!r}"
            key = f"{MP}::{name}::{label}"
            if st == "raise":
                if not scalar and not expects:
                    continue   # shape validation of containers (counted
                    #            per type below)
                ctx.ob("R11.5", False,
                       f"{name}({x!r}) raises {y} although "
                       f"{type_tag(x)} is {origin}"
                       + (" (round trip through an .rtdc file fails)"
                          if "HDF5" in origin else ""),
                       node=node, key=key)
                continue
            for t in decl:
                if isinstance(x, t) and not isinstance(x, str) or (
                        t is str and isinstance(x, str)):
                    accepted_by_type[t] += 1
            problems = []
            if not isinstance(y, decl):
                problems.append(f"returns {type_tag(y)}, not one of the "
                                f"declared {[t_name(t) for t in decl]}")
            if isinstance(x, str) and x in denotes and not _py_equal(
                    y, denotes[x]):
                problems.append(f"the text {x!r} denotes {denotes[x]!r} "
                                f"but is converted to {y!r}")
            if isinstance(x, (list, NdArray)) and y is x:
                problems.append(
                    "returns its (mutable) argument itself: the stored "
                    "value aliases the caller's object, a later in-place "
                    "change of that object changes the metadata")
            if not isinstance(x, str) and not _py_equal(y, x):
                problems.append(
                    f"changes the value of an input that already has a "
                    f"declared type: {x!r} -> {y!r}")
            st2, y2 = run_conv(conv, y)
            if st2 == "raise":
                problems.append(f"rejects its own output {y!r} ({y2})")
            elif not same_value(y2, y) or type_tag(y2) != type_tag(y):
                problems.append(f"not idempotent: {y!r} -> {y2!r}")
            for expect in inputs[done - 1][2]:
                if not same_value(y, expect):
                    problems.append(f"read-back value {y!r} differs from "
                                    f"the stored {expect!r}")
            ctx.ob("R11.5", not problems,
                   f"{name}({x!r}) -> {y!r}: declared type, value kept, "
                   "fixed point"
                   if not problems else f"{name}({x!r}): "
                   + "; ".join(problems), node=node, key=key)
            if conv in storable and not problems and "HDF5" not in origin:
                add(hdf5_image(y), f"the HDF5 image of its own output {y!r}",
                    expect=y)
        for t in decl:
            reps, scalar = per_type_ok[t]
            if not scalar:
                ok = accepted_by_type[t] > 0
                ctx.ob("R11.5", ok,
                       f"{name} accepts a value of its declared type "
                       f"{t_name(t)}" if ok else
                       f"{name} rejects every representative of its "
                       f"declared type {t_name(t)}", node=node,
                       key=f"{MP}::{name}::accepts some {t_name(t)}")
    ctx.stat("R11.5 converter evaluations", n_eval)
    # foreign representations: a numeric converter returns the value the
    # input denotes or raises - it never takes a scalar text apart or
    # accepts a sequence of the wrong shape
    table = ["25", "7", "2.5", b"25", 25, 2.5, NpFloat(2.5), "1,2",
             "[1, 2]", "(3.0, 4.0)", [1, 2, 3], (1.0, 2.0), [5.0],
             [[1, 2], [3, 4]], "ab", ""]
    n_for = 0
    for conv in convs:
        name = conv_name(conv)
        decl = declared_types(conv, func_types)
        if decl is None or bool in decl or NpBool in decl or str in decl:
            continue    # switches / texts: no numeric denotation
        node = repo.func(MP, name, missing_ok=True) or repo.module_assign(
            MP, "func_types")
        bad = []
        for x in table:
            n_for += 1
            st, y = run_conv(conv, x)
            if st != "ok":
                continue
            want = _denoted(x)
            got = _flat(y)
            if isinstance(y, numbers.Integral) or name == "fintlist":
                want = None if want is None else [float(int(w))
                                                  for w in want]
            if got is None or want is None or got != want:
                bad.append(f"{name}({x!r}) -> {y!r}")
        ctx.ob("R11.5", not bad,
               f"{name}: every foreign representation is converted to the "
               f"number(s) it denotes or refused ({len(table)} inputs)"
               if not bad else
               f"{name} neither refuses nor keeps the denoted value: "
               + "; ".join(bad[:3]), node=node,
               key=f"{MP}::{name}::foreign representations")
    ctx.stat("R11.5 foreign representation evaluations", n_for)


# ----------------------------------------------------------------------
# model of ConfigurationDict.__setitem__ / verify_section_key

class Recorder:
    def __init__(self):
        self.warned = []
        self.stored = []


def _module_level(tree, globs, interp):
    """module-level helpers of the analysed file: every function is
    interpreted by definition when called; simple module-level assignments
    (constants, namedtuple classes) are evaluated, others are skipped"""
    import collections
    globs.setdefault("namedtuple", collections.namedtuple)
    globs.setdefault("collections", Namespace(
        "collections", namedtuple=collections.namedtuple,
        OrderedDict=collections.OrderedDict))
    for st in tree.body:
        if isinstance(st, ast.FunctionDef) and st.name not in globs:
            globs[st.name] = Func(st, globs, interp)
    for st in tree.body:
        if isinstance(st, ast.Assign) and len(st.targets) == 1 \
                and isinstance(st.targets[0], ast.Name) \
                and st.targets[0].id not in globs:
            try:
                globs[st.targets[0].id] = interp.ev(st.value, None, globs,
                                                    None)
            except (AnalysisError, ModelRaise):
                pass


def _cd_method(repo, name):
    """method of ConfigurationDict, own or inherited from a base class of
    the same file"""
    from ..lib_C11 import class_methods
    m = class_methods(repo.cls(CONF, "ConfigurationDict")).get(name)
    if m is None:
        raise AnalysisError(f"anchor vanished: {CONF}::ConfigurationDict."
                            f"{name}")
    return m


def _env(repo, interp, rel, **overrides):
    """module environment of `rel` (names of the file and of repository
    modules it imports resolve by definition) with the rule's stand-ins"""
    from ..lib_C11 import ModuleEnvs
    return ModuleEnvs(repo, interp).fresh(rel, **overrides)


def build_config_model(repo, mc, ml):
    """-> setitem(section, key, value) -> Recorder"""
    tree = repo.tree(CONF)
    from ..lib_C11 import class_methods
    own = class_methods(repo.cls(CONF, "ConfigurationDict"))
    f_set = own.get("__setitem__")
    f_k = own.get("_k")
    if f_set is None:
        raise AnalysisError("ConfigurationDict.__setitem__ vanished")
    f_ver = repo.func(CONF, "verify_section_key")
    interp = Interp()
    rec_box = [None]

    def warn(msg, category=None, *a, **k):
        rec_box[0].warned.append(getattr(category, "_name", "UserWarning"))
    warn.model_callable = True
    feat = Namespace("feat")
    dfn = Namespace(
        "dfn", config_key_exists=ml.config_key_exists,
        get_config_value_func=ml.get_config_value_func,
        get_config_value_type=ml.get_config_value_type,
        scalar_feature_exists=lambda n: isinstance(n, str)
        and n in KNOWN_FEATS,
        config_keys=mc.config_keys, CFG_METADATA=mc.CFG_METADATA,
        CFG_ANALYSIS=mc.CFG_ANALYSIS)
    globs = _env(repo, interp, CONF, dfn=dfn,
                 warnings=Namespace("warnings", warn=warn),
                 sys=Namespace("sys", version_info=(3, 12, 0)))
    for st in tree.body:
        if isinstance(st, ast.ClassDef) and st.name.endswith("Warning"):
            globs[st.name] = Namespace(st.name)
    cls = Namespace("ConfigurationDict")
    kfunc = Func(f_k, globs, interp) if f_k is not None else None

    def bound_k(key):
        if kfunc is None:
            raise AnalysisError("ConfigurationDict._k vanished")
        return kfunc(cls, key)
    bound_k.model_callable = True
    cls._k = bound_k
    globs["ConfigurationDict"] = cls
    globs["verify_section_key"] = Func(f_ver, globs, interp)
    _module_level(tree, globs, interp)

    class Super:
        def model_getattr(self, attr):
            if attr != "__setitem__":
                raise AnalysisError(
                    f"__setitem__ delegates to super().{attr}")

            def store(key, value):
                rec_box[0].stored.append((key, value))
            store.model_callable = True
            return store

    def super_(*a):
        return Super()
    super_.model_callable = True
    globs["super"] = super_
    globs["UserDict"] = Namespace("UserDict", __setitem__=lambda s, k, v:
                                  rec_box[0].stored.append((k, v)))
    fset = Func(f_set, globs, interp)
    class SelfObj(Namespace):
        """instance stand-in: other methods of the class are interpreted
        when __setitem__ calls them (helper extraction)"""

        def model_getattr(self, attr):
            if attr in self.__dict__:
                return self.__dict__[attr]
            if attr in own and attr not in ("__setitem__", "__init__"):
                fn = Func(own[attr], globs, interp)
                me = self

                def bound(*a, **k):
                    return fn(me, *a, **k)
                bound.model_callable = True
                return bound
            # instance attributes that __init__ sets from an expression
            # independent of its arguments (counters, empty containers)
            init = own.get("__init__")
            for n in (ast.walk(init) if init is not None else ()):
                if isinstance(n, ast.Assign) and any(
                        isinstance(t, ast.Attribute) and t.attr == attr
                        and isinstance(t.value, ast.Name)
                        and t.value.id == "self" for t in n.targets):
                    try:
                        val = interp.ev(n.value, {}, globs, None)
                    except AnalysisError:
                        break
                    self.__dict__[attr] = val
                    return val
            raise AnalysisError(
                f"ConfigurationDict.__setitem__ uses self.{attr}, which is "
                "not modelled")

    def setitem(section, key, value):
        rec_box[0] = Recorder()
        interp.steps = 0
        self = SelfObj("self", section=section, __class__=cls, _k=bound_k)
        try:
            fset(self, key, value)
        except ModelRaise as e:
            rec_box[0].raised = e.name
        return rec_box[0]

    def verify(section, key):
        rec_box[0] = Recorder()
        interp.steps = 0
        res = globs["verify_section_key"](section, key)
        return res, rec_box[0]
    # ---- load_from_file on a model file -----------------------------
    f_load = repo.func(CONF, "load_from_file")
    f_guess = repo.func(CONF, "keyval_str2typ", missing_ok=True)

    class CIDict(dict):
        """section-less ConfigurationDict: keys pass _k, values as given"""

        def __setitem__(self, k, v):
            if v is not None:
                dict.__setitem__(self, bound_k(k), v)

        def __getitem__(self, k):
            return dict.__getitem__(self, bound_k(k))

        def __contains__(self, k):
            return dict.__contains__(self, bound_k(k))

    def new_dict(section=None, *a, **k):
        if section is not None or a or k:
            raise AnalysisError("load_from_file: ConfigurationDict created "
                                "with arguments – not modelled")
        return CIDict()
    new_dict.model_callable = True

    def load(lines):
        """{section: {key: value}} as returned by load_from_file"""
        fobj = Namespace("file", readlines=lambda: list(lines),
                         read=lambda: "".join(lines))
        fobj.__dict__["__enter__"] = lambda: fobj
        path = Namespace("path")
        path.resolve = lambda *a, **k: path
        path.open = lambda *a, **k: fobj
        g2 = globs.copy_with(
            ConfigurationDict=new_dict,
            pathlib=Namespace("pathlib", Path=lambda p: path),
            open=lambda *a, **k: fobj)
        interp.steps = 0
        return Func(f_load, g2, interp)("model.cfg")
    setitem.load = load
    return setitem, verify, bound_k


def sample_for(conv, func_types):
    """(raw value, its upper-/string form is not needed) accepted by conv"""
    decl = declared_types(conv, func_types)
    if decl is None:
        return None
    for t in decl:
        reps, _ = reps_for_type(t)
        for x in reps:
            if isinstance(x, tuple) and _:
                continue
            if run_conv(conv, x)[0] == "ok":
                return x
    return None


# ----------------------------------------------------------------------
# R11.2

#: units of continuous quantities / of discrete (pixel) quantities; [Hz]
#: is ambiguous in the table (frame rate: float, sample rate: integer)
UNITS_FLOAT = {"min", "s", "µs", "µm", "nm", "°C", "Pa*s", "µL/s", "V",
               "%", "1/pix"}
UNITS_INT = {"px", "pix"}


def described_kind(descr):
    """('float'|'int', why) where the entry's own description is explicit,
    else None"""
    import re
    units = re.findall(r"\[([^\]]+)\]", descr)
    low = descr.lower()
    kinds = set()
    why = []
    for u in units:
        if u in UNITS_FLOAT:
            kinds.add("float")
            why.append(f"a continuous quantity [{u}]")
        elif u in UNITS_INT:
            kinds.add("int")
            why.append(f"a pixel quantity [{u}]")
    if re.search(r"\bnumber of\b", low) or re.search(r"\bcount\b", low) \
            or re.match(r"index of\b", low):
        kinds.add("int")
        why.append("a count / an index")
    if len(kinds) != 1:
        return None
    return kinds.pop(), " and ".join(why)


def value_kind(conv):
    """'float' if the converter keeps a fractional part, 'int' if it
    returns integers, else None (decided on the model)"""
    for x in (2.5, (2.5, 3.5), [[2.5, 3.5], [1.5, 0.5], [0.5, 1.5]]):
        st, y = run_conv(conv, x)
        if st == "ok" and not isinstance(y, str):
            if _py_equal(y, x):
                return "float"
            if isinstance(y, numbers.Integral) and not isinstance(y, bool):
                return "int"
            return None
    return None


def table_nodes(repo, name):
    """{(section, key): entry node}, section order"""
    d = repo.module_assign(MC, name)
    if not isinstance(d, ast.Dict):
        raise AnalysisError(f"{name} is not a dict literal")
    out = {}
    for k, v in zip(d.keys, d.values):
        sec = const_str(k)
        if sec is None or not isinstance(v, (ast.List, ast.Tuple)):
            raise AnalysisError(f"{name}: section entry not a literal list")
        for item in v.elts:
            if isinstance(item, (ast.List, ast.Tuple)) and item.elts:
                out[(sec, const_str(item.elts[0]))] = item
            else:
                out[(sec, None)] = item
    return out


def r112(ctx, repo, mp, mc, ml, setitem):
    func_types = mp.func_types
    tables = {}
    for name in ("CFG_METADATA", "CFG_ANALYSIS"):
        if not hasattr(mc, name):
            raise AnalysisError(f"{MC}: {name} vanished")
        tables[name] = getattr(mc, name)
    shared = set(tables["CFG_METADATA"]) & set(tables["CFG_ANALYSIS"])
    ctx.ob("R11.2", not shared,
           "the sections of CFG_METADATA and CFG_ANALYSIS are disjoint"
           if not shared else f"sections {sorted(shared)} are defined in "
           "both tables: the CFG_ANALYSIS list replaces the metadata list",
           node=repo.module_assign(MC, "CFG_ANALYSIS"),
           key=f"{MC}::tables::sections disjoint")
    for need in ("config_funcs", "config_types", "config_descr",
                 "config_keys"):
        if not isinstance(getattr(mc, need, None), dict):
            raise AnalysisError(f"{MC}: derived table {need} vanished")
    storable = []
    n = 0
    undecided = []
    n_descr = 0
    for tname, table in tables.items():
        nodes = table_nodes(repo, tname)
        for sec, entries in table.items():
            seen = set()
            for ent in entries:
                node = nodes.get((sec, ent[0] if ent and isinstance(
                    ent[0], str) else None))
                if node is None:
                    node = repo.module_assign(MC, tname)
                if not (isinstance(ent, (list, tuple)) and len(ent) == 3
                        and isinstance(ent[0], str)
                        and isinstance(ent[2], str)):
                    ctx.ob("R11.2", False, f"[{sec}] entry "
                           f"`{short(node, 50)}` is not [key, converter, "
                           "description]", node=node,
                           key=f"{MC}::{tname}::[{sec}] {short(node, 40)}")
                    continue
                key, conv, descr = ent
                n += 1
                kk = f"{MC}::{tname}::[{sec}] {key}"
                problems = []
                if key != key.lower() or key != key.strip() or not key:
                    problems.append("key is not a stripped lower-case "
                                    "string (unreachable: keys are "
                                    "lower-cased on access)")
                if key in seen:
                    problems.append("duplicate key in its section")
                seen.add(key)
                decl = declared_types(conv, func_types)
                if decl is None or not callable(conv):
                    problems.append(
                        f"converter `{conv_name(conv)}` is neither a type "
                        "nor listed in meta_parse.func_types (no expected "
                        "type can be derived)")
                if mc.config_funcs.get(sec, {}).get(key) is not conv:
                    problems.append("config_funcs disagrees with the table")
                want_t = func_types.get(conv, conv) if decl else None
                if decl and mc.config_types.get(sec, {}).get(key) \
                        is not want_t:
                    problems.append("config_types disagrees with "
                                    "func_types[converter]")
                if mc.config_descr.get(sec, {}).get(key) != descr:
                    problems.append("config_descr disagrees with the table")
                if key not in mc.config_keys.get(sec, []):
                    problems.append("config_keys misses the key")
                if decl is not None and callable(conv):
                    exp = described_kind(descr)
                    if exp is None:
                        undecided.append(f"[{sec}] {key}")
                    else:
                        n_descr += 1
                        got = value_kind(conv)
                        if got != exp[0]:
                            problems.append(
                                f"the description '{descr}' says "
                                f"{exp[1]} but the converter "
                                f"{conv_name(conv)} is "
                                + {"float": "float-valued",
                                   "int": "integer-valued (fractions are "
                                   "truncated)"}.get(got, "neither "
                                   "integer- nor float-valued"))
                if not problems:
                    # end to end through the modelled funnel
                    x = sample_for(conv, func_types)
                    if x is None:
                        problems.append("converter accepts no "
                                        "representative of its declared "
                                        "types")
                    else:
                        want = run_conv(conv, x)[1]
                        for spelled in (key, key.upper()):
                            r = setitem(sec, spelled, x)
                            if getattr(r, "raised", None):
                                problems.append(
                                    f"assignment of {x!r} raises {r.raised}")
                            elif len(r.stored) != 1:
                                problems.append(
                                    f"assignment to '{spelled}' is not "
                                    f"stored (warnings {r.warned})")
                            else:
                                k2, v2 = r.stored[0]
                                if k2 != key:
                                    problems.append(
                                        f"'{spelled}' is stored under "
                                        f"'{k2}'")
                                if not same_value(v2, want) or type_tag(
                                        v2) != type_tag(want):
                                    problems.append(
                                        f"'{spelled}' = {x!r} is stored as "
                                        f"{v2!r}, converter gives {want!r}")
                ctx.ob("R11.2", not problems,
                       f"[{sec}] '{key}': converter {conv_name(conv)} known, "
                       "derived tables agree, funnel stores the converted "
                       "value case-insensitively" if not problems else
                       f"[{sec}] '{key}': " + "; ".join(problems),
                       node=node, key=kk)
                if tname == "CFG_METADATA" and decl is not None \
                        and conv not in storable:
                    storable.append(conv)
    ctx.stat("R11.2 table entries", n)
    ctx.stat("R11.2 entries whose description fixes int/float", n_descr)
    ctx.note("R11.2 description law NOT decided for (no explicit unit / "
             "count wording): " + ", ".join(undecided))

    # resolvers on pattern keys of the online_filter section
    suffixes = set()
    for fn in ("config_key_exists", "get_config_value_func",
               "get_config_value_type", "get_config_value_descr"):
        f = repo.func(ML, fn)
        for c in find_calls(f, attr="endswith"):
            if c.args and const_str(c.args[0]) is not None:
                suffixes.add(const_str(c.args[0]))
    if not {"soft limit", "polygon points"} <= suffixes:
        raise AnalysisError("meta_logic: pattern suffixes not recognised: "
                            + str(sorted(suffixes)))
    suffixes.add("bogus")
    prefixes = {"area_um": True, "area_um,deform": True, "nonfeat": False,
                "area_um,nonfeat": False}
    fnode = repo.func(ML, "get_config_value_func")
    ident = object()
    for suf in sorted(suffixes):
        for pre, known in prefixes.items():
            key = f"{pre} {suf}"
            try:
                exists = bool(ml.config_key_exists("online_filter", key))
                conv = ml.get_config_value_func("online_filter", key)
                typ = ml.get_config_value_type("online_filter", key)
            except ModelRaise as e:
                ctx.ob("R11.2", False, f"resolver raises {e.name} for "
                       f"[online_filter] '{key}'", node=fnode,
                       key=f"{ML}::online_filter::{key}")
                continue
            probe = ident
            is_ident = False
            if isinstance(conv, Func) and isinstance(conv.node, ast.Lambda):
                is_ident = conv(probe) is probe
            problems = []
            special = (not is_ident) or typ is not None
            if exists:
                if is_ident:
                    if typ not in (None, numbers.Number):
                        problems.append(
                            f"type resolver expects {_types_txt(typ)} but the "
                            "converter resolver returns the identity")
                else:
                    want = func_types.get(conv, conv)
                    if typ is not want:
                        problems.append(
                            f"converter {conv_name(conv)} but expected type "
                            f"{_types_txt(typ)}")
                    if declared_types(conv, func_types) is not None \
                            and conv not in storable:
                        storable.append(conv)
            elif known and special and "," in pre and suf in (
                    "soft limit", "polygon points"):
                problems.append("func/type resolvers treat the key as a "
                                "pattern key but config_key_exists rejects "
                                "it")
            elif known and special and "," not in pre:
                problems.append("func/type resolvers treat the key as a "
                                "pattern key but config_key_exists rejects "
                                "it")
            if not known and exists:
                problems.append("key with an unknown feature is accepted")
            ctx.ob("R11.2", not problems,
                   f"[online_filter] '{key}': exists={exists}, resolvers "
                   "agree" if not problems else
                   f"[online_filter] '{key}': " + "; ".join(problems),
                   node=fnode, key=f"{ML}::online_filter::{key}")
    # pattern-defined feature names (ml_score_??? with exactly three
    # characters of [0-9a-z]) as seen by the key predicates: the interpreted
    # feat_logic on a table of names, each position valid / invalid
    fl = ml.__dict__["_feat_logic"]
    FLG = "dclab/definitions/feat_logic.py"
    flnode = repo.func(FLG, "feature_exists")
    for pred in ("feature_exists", "scalar_feature_exists"):
        fn = getattr(fl, pred, None)
        if not callable(fn):
            raise AnalysisError(f"{FLG}: {pred} vanished")
        bad = []
        table = [("ml_score_abc", True), ("ml_score_0z9", True),
                 ("ml_score_-bc", False), ("ml_score_a-c", False),
                 ("ml_score_ab-", False), ("ml_score_ab_", False),
                 ("ml_score_Abc", False), ("ml_score_aBc", False),
                 ("ml_score_abC", False), ("ml_score_ab", False),
                 ("ml_score_abcd", False), ("xml_score_abc", False),
                 ("ml_score_ab.", False), ("area_um", True),
                 ("area_umx", False), ("", False)]
        for nm, want in table:
            try:
                got = bool(fn(nm))
            except ModelRaise as e:
                got = f"raises {e.name}"
            if got != want:
                bad.append(f"{pred}({nm!r}) is {got}, expected {want}")
        ctx.ob("R11.2", not bad,
               f"{pred} accepts exactly the registered names and "
               f"ml_score_ + 3 x [0-9a-z] ({len(table)} names)" if not bad
               else f"{FLG}: " + "; ".join(bad[:3]) + " (configuration keys "
               "of features that do not exist are accepted / existing ones "
               "rejected)", node=flnode,
               key=f"{FLG}::{pred}::name table")
    for key, want in (("ml_score_abc min", True), ("ml_score_ab- min", False),
                      ("ml_score_ab_ soft limit", False),
                      ("ml_score_abc,ml_score_ab. polygon points", False)):
        got = bool(ml.config_key_exists("online_filter", key))
        ctx.ob("R11.2", got == want,
               f"config_key_exists('online_filter', {key!r}) is {want}"
               if got == want else
               f"config_key_exists('online_filter', {key!r}) is {got}, "
               f"expected {want}", node=repo.func(ML, "config_key_exists"),
               key=f"{ML}::config_key_exists::{key}")

    # the key predicates follow the feature registry (plugin / temporary
    # features are registered and removed at run time): no memo of results
    reg = ml.__dict__["_registry"]
    enode = repo.func(ML, "config_key_exists")
    for fname in ("config_key_exists",):
        fn = getattr(ml, fname)
        for sec, key, feat in (
                ("online_filter", "newfeat min", "newfeat"),
                ("online_filter", "newfeat soft limit", "newfeat"),
                ("online_filter", "area_um,newfeat polygon points",
                 "newfeat")):
            try:
                reg.discard(feat)
                before = bool(fn(sec, key))
                reg.add(feat)
                during = bool(fn(sec, key))
                reg.discard(feat)
                after = bool(fn(sec, key))
                err = None
            except ModelRaise as e:
                err = e.name
            finally:
                reg.discard(feat)
            ok = err is None and (before, during, after) == (
                False, True, False)
            ctx.ob("R11.2", ok,
                   f"{fname}('{sec}', '{key}') follows the registration "
                   f"and removal of the feature '{feat}'" if ok else
                   f"{fname}('{sec}', '{key}') "
                   + (f"raises {err}" if err else
                      f"answers {before}/{during}/{after} before / while / "
                      f"after the feature '{feat}' is registered, expected "
                      "False/True/False: a result is remembered beyond a "
                      "change of the feature registry"), node=enode,
                   key=f"{ML}::{fname}::follows the feature registry "
                   f"({key})")
    for fname in ("get_config_value_func", "get_config_value_type"):
        fn = getattr(ml, fname)
        a1 = fn("online_filter", "area_um soft limit")
        b1 = fn("online_filter", "area_um polygon points")
        a2 = fn("online_filter", "area_um soft limit")
        ok = conv_name(a1) == conv_name(a2) and a1 == a2 and (
            a1 != b1 or fname.endswith("type") and a1 != b1)
        ctx.ob("R11.2", ok, f"{fname} answers per key, repeatably" if ok
               else f"{fname} answers differently on repetition / the same "
               "for different pattern keys", node=repo.func(ML, fname),
               key=f"{ML}::{fname}::repeatable", nontrivial=False)

    # user section: no conversion, no type
    conv = ml.get_config_value_func("user", "anything")
    typ = ml.get_config_value_type("user", "anything")
    ex = ml.config_key_exists("user", "anything")
    probe = object()
    ok = ex and typ is None and isinstance(conv, Func) and conv(probe) is probe
    ctx.ob("R11.2", bool(ok), "user keys exist, are not converted and have "
           "no expected type" if ok else "user-section resolvers changed: "
           f"exists={ex}, type={typ}, converter={conv_name(conv)}",
           node=fnode, key=f"{ML}::user::resolvers")
    return storable


# ----------------------------------------------------------------------
# R11.3 + positive funnel scenarios (R11.1)

def r113(ctx, repo, mp, mc, setitem, verify, bound_k):
    f_set = _cd_method(repo, "__setitem__")
    f_ver = repo.func(CONF, "verify_section_key")
    marker = object()
    rej = [
        ("unknown key", "setup", "bogus key", "x"),
        ("unknown key upper case", "setup", "BOGUS", 1.0),
        ("unknown section", "bogus section", "channel width", 20.0),
        ("deprecated section plotting", "plotting", "anything", 1),
        ("unknown filtering key", "filtering", "bogus", 1),
        ("range for unknown feature", "filtering", "nonfeat min", 1.0),
        ("unknown online_filter feature", "online_filter", "nonfeat max", 1),
        ("user key not a string", "user", 5, "x"),
        ("user key blank", "user", "   ", "x"),
        ("empty string", "setup", "medium", ""),
        ("empty string for a float key", "setup", "channel width", ""),
        ("None", "setup", "channel width", None),
        ("None in the user section", "user", "my key", None),
        ("None without section", None, "some key", None),
    ]
    for label, sec, key, val in rej:
        r = setitem(sec, key, val)
        raised = getattr(r, "raised", None)
        ok = not r.stored and r.warned and not raised
        if raised:
            msg = f"assignment raises {raised} instead of warning"
        elif r.stored:
            msg = (f"[{sec}] {key!r} = {val!r} reaches the store "
                   f"(stored {r.stored[0]!r}, warnings {r.warned})")
        elif not r.warned:
            msg = f"[{sec}] {key!r} = {val!r} is dropped without a warning"
        else:
            msg = (f"[{sec}] {key!r} = {val!r} is rejected with "
                   f"{r.warned[0]} and not stored")
        ctx.ob("R11.3", ok, msg, node=f_set,
               key=f"{CONF}::ConfigurationDict.__setitem__::rejects {label}")
    # verify_section_key verdicts
    verdicts = [
        ("setup", "channel width", True), ("setup", "bogus", False),
        ("bogus", "channel width", False), ("analysis", "x", False),
        ("filtering", "area_um min", True), ("filtering", "deform max", True),
        ("filtering", "nonfeat max", False), ("filtering", "bogus", False),
        ("filtering", "limit events", True),
        ("user", "my key", True), ("user", "", False), ("user", 7, False),
        ("online_filter", "area_um soft limit", True),
        ("online_filter", "nonfeat soft limit", False),
        ("calculation", "emodulus lut", True),
    ]
    for sec, key, want in verdicts:
        try:
            got, r = verify(sec, key)
            raised = None
        except ModelRaise as e:
            got, r, raised = None, None, e.name
        ok = raised is None and bool(got) == want and (
            want or bool(r.warned))
        ctx.ob("R11.3", ok,
               f"verify_section_key({sec!r}, {key!r}) is {want}"
               + ("" if want else " with a warning") if ok else
               f"verify_section_key({sec!r}, {key!r}) "
               + (f"raises {raised}" if raised else
                  f"returns {got!r} (warnings "
                  f"{r.warned}), expected {want}"
                  + ("" if want else " with a warning")),
               node=f_ver,
               key=f"{CONF}::verify_section_key::[{sec}] {key!r}")
    # positive scenarios
    pos = [
        ("section-less dict stores as is", None, "Some Key", marker,
         "some key", marker),
        ("user value stored as is", "user", "My Key", marker, "my key",
         marker),
        ("numeric string", "setup", "channel width", "20", "channel width",
         20.0),
        ("bool string", "filtering", "enable filters", "False",
         "enable filters", False),
        ("numpy scalar", "experiment", "event count", NpInt(7),
         "event count", 7),
        ("filter range", "filtering", "area_um min", 1.5, "area_um min",
         1.5),
        ("soft limit", "online_filter", "area_um,deform soft limit", "true",
         "area_um,deform soft limit", True),
        ("zero is not None", "filtering", "limit events", 0, "limit events",
         0),
        ("False is not None", "filtering", "enable filters", False,
         "enable filters", False),
    ]
    for label, sec, key, val, wkey, wval in pos:
        r = setitem(sec, key, val)
        raised = getattr(r, "raised", None)
        ok = (not raised and len(r.stored) == 1 and r.stored[0][0] == wkey
              and (r.stored[0][1] is wval or (
                  wval is not marker and same_value(r.stored[0][1], wval)
                  and type_tag(r.stored[0][1]) == type_tag(wval))))
        ctx.ob("R11.1", ok,
               f"[{sec}] {key!r} = {val!r} is stored as {wkey!r}: {wval!r}"
               if ok else f"[{sec}] {key!r} = {val!r}: "
               + (f"raises {raised}" if raised else
                  f"stored {r.stored!r}, expected {(wkey, wval)!r}"),
               node=f_set,
               key=f"{CONF}::ConfigurationDict.__setitem__::stores {label}")
    # _k
    try:
        ok = bound_k("AbC d") == "abc d" and bound_k(5) == 5 and bound_k(
            None) is None
    except ModelRaise:
        ok = False
    ctx.ob("R11.1", ok, "_k lower-cases strings and passes other keys"
           if ok else "_k no longer lower-cases strings / breaks on "
           "non-string keys", node=_cd_method(repo, "_k"),
           key=f"{CONF}::ConfigurationDict._k::lower-case")


# ----------------------------------------------------------------------
# R11.1 structural

def _is_super_call(node, meth=None):
    """super(...).meth(...)"""
    return (isinstance(node, ast.Call)
            and isinstance(node.func, ast.Attribute)
            and (meth is None or node.func.attr == meth)
            and isinstance(node.func.value, ast.Call)
            and call_name(node.func.value) == "super")


def _self_setitem_calls(func):
    """statements that store through the validating __setitem__ of self"""
    out = []
    for n in walk(func):
        if isinstance(n, ast.Call) and isinstance(n.func, ast.Attribute) \
                and n.func.attr == "__setitem__" and isinstance(
                    n.func.value, ast.Name) and n.func.value.id == "self":
            out.append(n)
        if isinstance(n, ast.Assign):
            for t in n.targets:
                if isinstance(t, ast.Subscript) and isinstance(
                        t.value, ast.Name) and t.value.id == "self":
                    out.append(n)
    return out


def _raw_stores(func):
    """direct writes that by-pass validation inside a method"""
    out = []
    for n in walk(func):
        if isinstance(n, ast.Call) and isinstance(n.func, ast.Attribute):
            a = n.func.attr
            if _is_super_call(n, "__setitem__"):
                out.append(n)
            elif a == "__setitem__" and dotted(n.func.value) in (
                    "UserDict", "dict", "collections.UserDict"):
                out.append(n)
            elif a in ("update", "setdefault", "__setitem__", "__ior__") \
                    and is_self_attr(n.func.value, "data"):
                out.append(n)
        if isinstance(n, (ast.Assign, ast.AugAssign)):
            tg = n.targets if isinstance(n, ast.Assign) else [n.target]
            for t in tg:
                if is_self_attr(t, "data"):
                    out.append(n)
                if isinstance(t, ast.Subscript) and is_self_attr(
                        t.value, "data"):
                    out.append(n)
    return out


def r111(ctx, repo):
    from ..lib_C11 import class_methods
    cls = repo.cls(CONF, "ConfigurationDict")
    # the class (possibly through private base classes of the same file)
    # is a collections.UserDict
    roots, todo, seen_b = [], [cls], set()
    while todo:
        c = todo.pop()
        for b in c.bases:
            nm = dotted(b)
            sub = repo.cls(CONF, nm, missing_ok=True) if nm and "." not in \
                nm else None
            if sub is not None and nm not in seen_b:
                seen_b.add(nm)
                todo.append(sub)
            else:
                roots.append(nm)
    if roots not in (["UserDict"], ["collections.UserDict"]):
        raise AnalysisError(f"ConfigurationDict bases changed: {roots}")
    methods = class_methods(cls)
    if "__setitem__" not in methods:
        raise AnalysisError("ConfigurationDict.__setitem__ vanished")
    # (a) raw stores only inside __setitem__
    for name, f in methods.items():
        raw = _raw_stores(f)
        if name == "__setitem__":
            ok = len(raw) == 1
            ctx.ob("R11.1", ok, "__setitem__ has exactly one base-class "
                   "store" if ok else f"__setitem__ has {len(raw)} raw "
                   "stores", node=f, label="single raw store")
            continue
        ctx.ob("R11.1", not raw,
               f"{name} never writes the underlying dict directly"
               if not raw else
               f"{name} writes the underlying dict without validation: "
               f"`{short(raw[0], 50)}`", node=raw[0] if raw else f,
               key=f"{CONF}::ConfigurationDict.{name}::no raw store")
    # (b) own mutators route through __setitem__: `update` is interpreted on
    # an instance whose __setitem__ and raw dict record what reaches them
    # (helper methods of the class are followed; super().update is the
    # MutableMapping mixin, which assigns item by item)
    upd = methods.get("update")
    if upd is not None:
        from ..lib_C11 import ClassModel
        interp = Interp()
        g = _env(repo, interp, CONF)
        cm = ClassModel(cls, g, interp, strict_instances=True)
        g.set("ConfigurationDict", cm)

        def run_update(args, kwargs):
            stored, raw = [], []

            class Raw(dict):
                def __setitem__(self, k, v):
                    raw.append((k, v))

                def update(self, *a, **k):
                    raw.append(("update", a, k))

                def setdefault(self, k, v=None):
                    raw.append((k, v))

            def setitem(k, v):
                stored.append((k, v))
            setitem.model_callable = True
            me = cm.instance(data=Raw(), section="setup")
            me.__dict__["__setitem__"] = setitem

            class Super:
                model_object = True

                def update(self, *a, **k):
                    for m in list(a) + [k]:
                        for kk in m:
                            setitem(kk, m[kk])

                def __setitem__(self, k, v):
                    raw.append((k, v))
            g.set("super", lambda *a: Super())
            interp.steps = 0
            try:
                Func(upd, g, interp)(me, *args, **kwargs)
                err = None
            except ModelRaise as e:
                err = e.name
            return stored, raw, err
        pos = [a.arg for a in upd.args.args[1:]]
        kwname = upd.args.kwarg.arg if upd.args.kwarg else None
        cases = []
        if pos:
            cases.append((pos[0], ({"A": 1, "b": "2"},), {},
                          [("A", 1), ("b", "2")]))
        if kwname:
            cases.append((kwname, (), {"c": 3.0, "D": None},
                          [("c", 3.0), ("D", None)]))
        if pos and kwname:
            cases.append((f"{pos[0]} and {kwname}", ({"A": 1},),
                          {"c": 3.0}, [("A", 1), ("c", 3.0)]))
        for what, a, k, want in cases:
            stored, raw, err = run_update(a, k)
            problems = []
            if err:
                problems.append(f"raises {err}")
            if raw:
                problems.append(f"writes {raw[0]} into the raw dict")
            if sorted(stored, key=repr) != sorted(want, key=repr):
                problems.append(f"__setitem__ receives {stored}, expected "
                                f"{want}")
            ctx.ob("R11.1", not problems,
                   f"update(): every entry of `{what}` goes through "
                   "__setitem__ with its own value" if not problems else
                   f"update(): entries of `{what}` are not stored through "
                   "__setitem__: " + "; ".join(problems), node=upd,
                   key=f"{CONF}::ConfigurationDict.update::routes {what}")
        stored, raw, err = run_update((), {})
        ok = not stored and not raw and not err
        ctx.ob("R11.1", ok, "update() without arguments stores nothing"
               if ok else f"update() without arguments: {err or stored}",
               node=upd, key=f"{CONF}::ConfigurationDict.update::empty",
               nontrivial=False)
    ck = methods.get("_convert_keys")
    init = methods.get("__init__")
    if init is None:
        raise AnalysisError("ConfigurationDict.__init__ vanished")
    # (d) section known before the first store, data re-validated
    order = []
    for s in init.body:
        if isinstance(s, ast.Assign) and any(
                is_self_attr(t, "section") for t in s.targets):
            order.append(("section", s))
        for c in walk(s):
            if _is_super_call(c, "__init__"):
                order.append(("super", s))
            if isinstance(c, ast.Call) and isinstance(
                    c.func, ast.Attribute) and c.func.attr in (
                    "_convert_keys", "update") and isinstance(
                    c.func.value, ast.Name) and c.func.value.id == "self":
                order.append(("store", s))
    kinds = [k for k, _ in order]
    if "section" not in kinds or "super" not in kinds:
        raise AnalysisError("ConfigurationDict.__init__: section / "
                            "super().__init__ not recognised")
    ok = kinds.index("section") < min(
        i for i, k in enumerate(kinds) if k in ("super", "store"))
    sec_stmt = [s for k, s in order if k == "section"][0]
    ok = ok and "section" in names_in(sec_stmt.value)
    ctx.ob("R11.1", ok, "construction: the section is set from the argument "
           "before initial data are stored (UserDict.__init__ -> update -> "
           "__setitem__)" if ok else
           "construction: initial data are stored before the section is "
           "known / the section argument is ignored", node=init,
           label="section before data")
    if ck is not None:
        stores = _self_setitem_calls(ck)
        pops = [c for c in walk(ck) if isinstance(c, ast.Call)
                and last_attr(c) == "pop"]
        ok = bool(stores) and bool(pops) and any(
            isinstance(lp, ast.For) and any(
                s is x for s in stores for x in walk(lp))
            for lp in walk(ck))
        ctx.ob("R11.1", ok, "_convert_keys re-inserts every entry through "
               "__setitem__" if ok else "_convert_keys no longer re-inserts "
               "the entries through __setitem__", node=ck,
               label="reinsert through __setitem__")
    # (c) inherited mutators that write self.data directly
    for m in sorted(USERDICT_DIRECT):
        f = methods.get(m)
        ok = f is not None and (bool(_self_setitem_calls(f)) or any(
            isinstance(c, ast.Call) and isinstance(c.func, ast.Attribute)
            and c.func.attr == "update" and isinstance(
                c.func.value, ast.Name) and c.func.value.id == "self"
            for c in walk(f)))
        ctx.ob("R11.1", ok,
               f"{m} is overridden and routes through the validating "
               "update/__setitem__" if ok else
               f"UserDict.{m} is inherited: `d |= other` writes other's "
               "items into self.data without lower-casing, validation or "
               "conversion", node=f or cls,
               key=f"{CONF}::ConfigurationDict::inherited {m}")
    # (g) key normalisation in every key-taking method that reaches the
    # underlying mapping: interpreted with a mixed-case key, the key handed
    # to the base class must be the lower-case one
    from ..lib_C11 import ClassModel
    kint = Interp()
    for name, f in methods.items():
        params = [a.arg for a in f.args.args]
        if len(params) < 2 or params[1] != "key" or name in (
                "_k", "__setitem__"):
            continue
        reaches = any(_is_super_call(c) for c in walk(f)
                      if isinstance(c, ast.Call)) or any(
            is_self_attr(n, "data") for n in walk(f))
        if not reaches:
            continue    # helper that never touches the underlying mapping
        seen_keys = []

        class Super:
            model_object = True

            def model_getattr(self, attr):
                def rec(key=None, *a, **k):
                    seen_keys.append(key)
                    return None
                rec.model_callable = True
                return rec

        class Data(dict):
            def __getitem__(self, k):
                seen_keys.append(k)

            def __contains__(self, k):
                seen_keys.append(k)
                return False

            def get(self, k, *a):
                seen_keys.append(k)

            def pop(self, k, *a):
                seen_keys.append(k)

            def setdefault(self, k, *a):
                seen_keys.append(k)
        g = _env(repo, kint, CONF)
        g.set("super", lambda *a: Super())
        cm_ = ClassModel(cls, g, kint, strict_instances=True)
        g.set("ConfigurationDict", cm_)
        me = cm_.instance(data=Data(), section="setup")
        kint.steps = 0
        try:
            Func(f, g, kint)(me, "MiXed Key")
            err = None
        except ModelRaise as e:
            err = e.name
        ok = err is None and bool(seen_keys) and all(
            k == "mixed key" for k in seen_keys)
        ctx.ob("R11.1", ok,
               f"{name} normalises its key through _k" if ok else
               f"{name}('MiXed Key') " + (f"raises {err}" if err else
                                          f"looks up {seen_keys}")
               + ": case-sensitive access", node=f,
               key=f"{CONF}::ConfigurationDict.{name}::key via _k")
    f = methods["__setitem__"]
    uses_norm = any(isinstance(n, ast.Assign) and any(
        isinstance(t, ast.Name) and t.id == "key" for t in n.targets)
        for n in walk(f))
    ctx.ob("R11.1", True, "__setitem__ key handling is decided by the "
           "modelled store (R11.1 stores ..., R11.2 upper-case spelling)",
           node=f, key=f"{CONF}::ConfigurationDict.__setitem__::key via _k",
           nontrivial=False)

    # Configuration
    conf = repo.cls(CONF, "Configuration")
    cm = {f.name: f for f in conf.body if isinstance(f, ast.FunctionDef)}
    for need in ("__init__", "__getitem__", "update"):
        if need not in cm:
            raise AnalysisError(f"Configuration.{need} vanished")
    n_sec = 0
    for name, f in cm.items():
        for n in walk(f):
            if isinstance(n, ast.Assign):
                for t in n.targets:
                    if isinstance(t, ast.Subscript) and is_self_attr(
                            t.value, "_cfg"):
                        n_sec += 1
                        v = n.value
                        sec_kw = kwarg(v, "section", 0) if isinstance(
                            v, ast.Call) and call_name(
                            v) == "ConfigurationDict" else None
                        ok = sec_kw is not None
                        if ok and isinstance(sec_kw, ast.Name):
                            # section = None if self.disable_checks else sec
                            d = [a for a in walk(f) if isinstance(
                                a, ast.Assign) and any(isinstance(
                                    tt, ast.Name) and tt.id == sec_kw.id
                                    for tt in a.targets)]
                            ok = len(d) == 1 and _section_expr_ok(
                                d[0].value, txt(t.slice))
                        elif ok:
                            ok = _section_expr_ok(sec_kw, txt(t.slice))
                        ctx.ob("R11.1", ok,
                               f"{name}: a new section is a ConfigurationDict "
                               "aware of its section (unless checks are "
                               "disabled)" if ok else
                               f"{name}: `{short(n, 60)}` creates a section "
                               "that does not validate its keys",
                               node=n, key=f"{CONF}::Configuration.{name}::"
                               "section-aware dict")
    # (both routes – update and the convenience __getitem__ – are evaluated
    # on the interpreted class by r116; here every site that is written out
    # is classified, a shared helper counts once)
    if n_sec < 1:
        raise AnalysisError("Configuration: section creation sites lost")
    up = cm["update"]
    calls = [c for c in walk(up) if isinstance(c, ast.Call) and isinstance(
        c.func, ast.Attribute) and c.func.attr == "update"
        and isinstance(c.func.value, ast.Subscript)
        and is_self_attr(c.func.value.value, "_cfg")]
    loops = [lp for lp in walk(up) if isinstance(lp, ast.For)]
    ok = bool(calls) and bool(loops) and any(
        c is x for c in calls for x in walk(loops[0])) and all(
        txt(c.func.value.slice) in txt(c.args[0]) for c in calls if c.args)
    ctx.ob("R11.1", ok, "Configuration.update fills each section through "
           "ConfigurationDict.update with that section's values" if ok else
           "Configuration.update does not route the values of each section "
           "through ConfigurationDict.update", node=up,
           label="sections filled through update")
    ini = cm["__init__"]
    ups = [c for c in walk(ini) if isinstance(c, ast.Call) and isinstance(
        c.func, ast.Attribute) and c.func.attr == "update"
        and isinstance(c.func.value, ast.Name) and c.func.value.id == "self"]
    srcs = " ".join(txt(c.args[0]) for c in ups if c.args)
    ok = "cfg" in srcs and "load_from_file" in srcs
    ctx.ob("R11.1", ok, "construction from a dict and from files goes "
           "through Configuration.update" if ok else
           "construction no longer routes cfg / files through update",
           node=ini, label="construction through update")
    raw_cfg = [n for n in walk(ini) if isinstance(n, ast.Assign) and any(
        is_self_attr(t, "_cfg") for t in n.targets)]
    ok = len(raw_cfg) == 1 and txt(raw_cfg[0].value) == "ConfigurationDict()"
    ctx.ob("R11.1", ok, "the section container starts empty" if ok else
           "the section container is initialised from unvalidated data",
           node=ini, label="container starts empty", nontrivial=False)

    # (e) whole package: nobody reaches around the funnel
    n_files = n_parsed = 0
    for rel in repo.files("dclab/"):
        if rel == CONF:
            continue
        n_files += 1
        bad = []
        src = repo.src(rel)
        low = src.lower()
        if not ("_cfg" in src or "__setitem__" in src
                or "ConfigurationDict" in src or (
                ".data" in src and ("config" in low or "cfg" in low))):
            continue    # cannot contain any of the three shapes below
        n_parsed += 1
        tree = repo.tree(rel)
        for n in ast.walk(tree):
            if isinstance(n, ast.Attribute) and n.attr == "_cfg":
                bad.append(n)
            elif isinstance(n, ast.Attribute) and n.attr == "data" and (
                    "config" in txt(n.value).lower()
                    or "cfg" in txt(n.value).lower()):
                bad.append(n)
            elif isinstance(n, ast.Attribute) and n.attr == "data" \
                    and _bound_to_configdict(n):
                bad.append(n)
            elif isinstance(n, ast.Call) and isinstance(
                    n.func, ast.Attribute) and n.func.attr == "__setitem__" \
                    and dotted(n.func.value) in ("UserDict", "dict",
                                                 "collections.UserDict") \
                    and n.args and ("config" in txt(n.args[0]).lower()
                                    or "cfg" in txt(n.args[0]).lower()):
                bad.append(n)
        if bad:
            for b in bad:
                ctx.ob("R11.1", False,
                       f"`{short(b, 50)}` reaches around the validating "
                       "__setitem__ of the configuration", node=b,
                       label=f"raw access {short(b, 40)}")
    ctx.ob("R11.1", True, f"{n_files} modules outside config.py never touch "
           "`.data`/`._cfg` of a configuration", key="dclab/::whole tree::"
           "no raw configuration access", nontrivial=False)
    ctx.stat("R11.1 modules scanned", n_files)
    ctx.stat("R11.1 modules parsed after the textual pre-filter", n_parsed)


def _bound_to_configdict(attr):
    """`<x>.data` where <x> (same text) is assigned, in the same function,
    from an expression that creates / reads a ConfigurationDict"""
    f = attr
    while f is not None and not isinstance(
            f, (ast.FunctionDef, ast.AsyncFunctionDef, ast.Module)):
        f = getattr(f, "parent", None)
    if f is None:
        return False
    base = txt(attr.value)
    for n in ast.walk(f):
        if isinstance(n, ast.Assign) and any(txt(t) == base
                                             for t in n.targets):
            v = txt(n.value)
            if "ConfigurationDict(" in v or ".config[" in v \
                    or v.endswith(".config") or "Configuration(" in v:
                return True
    return False


def _section_expr_ok(e, sec_txt):
    """`None if self.disable_checks else <sec>` or `<sec>`"""
    if isinstance(e, ast.IfExp):
        t = txt(e.test)
        if "disable_checks" not in t:
            return False
        if isinstance(e.test, ast.UnaryOp):
            return txt(e.body) == sec_txt and txt(e.orelse) == "None"
        return txt(e.orelse) == sec_txt and txt(e.body) == "None"
    return txt(e) == sec_txt


# ----------------------------------------------------------------------
# R11.4

class _Conv:
    """value that went through get_config_value_func(sec, key)"""

    def __init__(self, sec, key, value):
        self.sec, self.key, self.value = sec, key, value

    def __repr__(self):
        return f"conv[{self.sec}:{self.key}]({self.value!r})"


def _writer_model(repo, mc, ml):
    """store(meta) -> (attrs written, error name or None, meta afterwards):
    RTDCWriter.store_metadata interpreted on a model file"""
    sm = repo.func(WR, "RTDCWriter.store_metadata")
    interp = Interp()

    def get_func(section, key):
        def conv(v):
            return _Conv(section, key, v)
        conv.model_callable = True
        return conv
    dfn = Namespace("dfn", CFG_METADATA=mc.CFG_METADATA,
                    CFG_ANALYSIS=mc.CFG_ANALYSIS, config_keys=mc.config_keys,
                    config_key_exists=ml.config_key_exists,
                    get_config_value_func=get_func)
    globs = _env(repo, interp, WR, dfn=dfn,
                 copy=Namespace("copy", deepcopy=_copy.deepcopy,
                                copy=_copy.copy))
    from ..lib_C11 import ClassModel
    writer = ClassModel(repo.cls(WR, "RTDCWriter"), globs, interp,
                        strict_instances=True)

    def store(meta):
        attrs = {}

        def brand(old_version=None, write_attribute=True):
            return "dclab model" if not old_version else (
                f"{old_version} | dclab model")
        me = writer.instance(h5file=Namespace("h5file", attrs=attrs),
                             version_brand=brand, path="model.rtdc")
        interp.steps = 0
        err = None
        try:
            Func(sm, globs, interp)(me, meta)
        except ModelRaise as e:
            err = e.name
        return attrs, err
    return sm, store


def _reader_model(repo):
    """parse(attrs, as_path) -> (assignments [(section, key, value)],
    Configuration kwargs, raw writes, error)"""
    pc = repo.func(H5, "RTDC_HDF5.parse_config")
    interp = Interp()
    box = {}

    class File(Namespace):
        def __init__(self, *a, **k):
            super().__init__("h5file", attrs=dict(box["attrs"]))
            box["opened"] = (a, k)

        def model_enter(self):
            return self

        def model_exit(self):
            box["closed"] = box.get("closed", 0) + 1

        def close(self):
            box["closed"] = box.get("closed", 0) + 1

    class Section:
        model_object = True

        def __init__(self, name):
            self.name = name
            self.data = _Raw(name)

        def model_setitem(self, key, value):
            box["assigned"].append((self.name, key, value))

        def update(self, other):
            for k, v in dict(other).items():
                self.model_setitem(k, v)

    class _Raw(dict):
        def __init__(self, name):
            super().__init__()
            self.name = name

        def __setitem__(self, k, v):
            box["raw"].append((self.name, k, v))

    class Config:
        model_object = True

        def __init__(self, *a, **k):
            box["cfg_args"] = (a, k)
            self.secs = {}

        def __getitem__(self, sec):
            return self.secs.setdefault(sec, Section(sec))
    from ..lib_C11 import CONTEXTLIB
    globs = _env(repo, interp, H5, h5py=Namespace("h5py", File=File),
                 Configuration=Config, contextlib=CONTEXTLIB)

    def parse(attrs, as_path):
        box.update(attrs=attrs, assigned=[], raw=[], cfg_args=None,
                   opened=None)
        interp.steps = 0
        arg = "model.rtdc" if as_path else File()
        err = None
        try:
            out = Func(pc, globs, interp)(arg)
            if not isinstance(out, Config):
                err = "does not return the configuration"
        except ModelRaise as e:
            err = f"raises {e.name}"
        return box["assigned"], box["cfg_args"], box["raw"], err
    return pc, parse


def r114(ctx, repo, setitem, mc, ml):
    # ---- writer: store_metadata interpreted on a model file ----------
    sm, store = _writer_model(repo, mc, ml)
    meta = {"setup": {"channel width": "20", "medium": b"CellCarrier"},
            "experiment": {"sample": "abc", "run index": 3},
            "online_filter": {"area_um,deform soft limit": True,
                              "area_um min": 1.5},
            "fmt_tdms": {"video frame offset": 1},
            "user": {"My Key": [1, 2], "note": b"bytes"}}
    before = _copy.deepcopy(meta)
    attrs, err = store(meta)
    if err and not ctx.findings():
        raise AnalysisError(f"store_metadata raises {err} for the model "
                            "metadata")
    bad_conv, bad_name, n_conv = [], [], 0
    for sec, d in before.items():
        if sec in ("user", "fmt_tdms"):
            continue
        for ck, v in d.items():
            n_conv += 1
            name = f"{sec}:{ck}"
            if name not in attrs:
                bad_name.append(f"[{sec}] '{ck}' is not written as "
                                f"'{name}' (attributes: "
                                f"{sorted(attrs)[:4]}...)")
                continue
            got = attrs[name]
            if not isinstance(got, _Conv):
                bad_conv.append(f"'{name}' is written as {got!r} without "
                                "the converter")
            elif (got.sec, got.key) != (sec, ck):
                bad_conv.append(f"'{name}' is converted with the converter "
                                f"of ({got.sec}, {got.key})")
    ctx.ob("R11.4", not bad_conv, f"all {n_conv} non-user values are piped "
           "through get_config_value_func(section, key)" if not bad_conv
           else "store_metadata: " + bad_conv[0], node=sm,
           label="converter on write")
    ctx.ob("R11.4", not bad_name, "attributes are named 'section:key'"
           if not bad_name else "store_metadata: " + bad_name[0], node=sm,
           label="attribute name")
    got = attrs.get("user:My Key")
    ok = got == [1, 2] and not isinstance(got, _Conv)
    ctx.ob("R11.4", ok, "user-defined values are written as given" if ok
           else f"user-defined value [1, 2] is written as {got!r}", node=sm,
           label="user stored as is")
    b1 = attrs.get("setup:medium")
    b1 = b1.value if isinstance(b1, _Conv) else b1
    b2 = attrs.get("user:note")
    ok = b1 == "CellCarrier" and b2 == "bytes"
    ctx.ob("R11.4", ok, "bytes values are decoded before they are stored"
           if ok else f"bytes values are stored as {b1!r} / {b2!r}",
           node=sm, label="bytes decoded on write")
    ok = not any(k.startswith("fmt_tdms") for k in attrs)
    ctx.ob("R11.4", ok, "the fmt_tdms section is not written" if ok else
           "the fmt_tdms section is written to the file", node=sm,
           label="tdms section dropped", nontrivial=False)
    ok = meta == before
    ctx.ob("R11.4", ok, "the caller's mapping is left untouched" if ok else
           "store_metadata modifies the caller's metadata in place",
           node=sm, label="works on a copy", nontrivial=False)
    # the same when the caller hands over section-aware dictionaries (what
    # export does): nothing about the container exempts a value from the
    # converter
    class SecDict(dict):
        def __init__(self, section, *a):
            super().__init__(*a)
            self.section = section

        def __deepcopy__(self, memo):
            return SecDict(self.section, self)

        def copy(self):
            return SecDict(self.section, self)
    meta2 = {"setup": SecDict("setup", {"channel width": "20"}),
             "imaging": SecDict("imaging", {"pixel size": "0.34"}),
             "user": SecDict("user", {"k": 1})}
    attrs2, err2 = store(meta2)
    bad2 = []
    if err2:
        bad2.append(f"raises {err2}")
    for name in ("setup:channel width", "imaging:pixel size"):
        got = attrs2.get(name)
        if not err2 and not (isinstance(got, _Conv) and f"{got.sec}:"
                             f"{got.key}" == name):
            bad2.append(f"'{name}' of a section-aware dictionary is written "
                        f"as {got!r} without the converter")
    ctx.ob("R11.4", not bad2, "values of section-aware dictionaries are "
           "converted like those of plain dicts" if not bad2 else
           "store_metadata: " + bad2[0], node=sm,
           label="converter on write (section-aware dict)")
    for label, lab2, m2 in (
            ("section guard", "sections outside CFG_METADATA (other than "
             "user)", {"filtering": {"enable filters": True}}),
            ("section guard unknown", "unknown sections",
             {"bogus section": {"x": 1}}),
            ("key guard", "keys unknown to config_key_exists",
             {"setup": {"bogus key": 1}}),
            ("key guard pattern", "online_filter keys of unknown features",
             {"online_filter": {"nonfeat min": 1}})):
        a2, e2 = store(m2)
        wrote = [k for k in a2 if not k.startswith("setup:software")]
        ok = e2 == "ValueError" and not wrote
        ctx.ob("R11.4", ok, f"{lab2} are refused" if ok else
               f"store_metadata accepts {lab2}: {m2} -> "
               + (f"raises {e2}" if e2 else f"writes {wrote}"), node=sm,
               label=label)

    # ---- reader: parse_config interpreted ---------------------------
    pc, parse = _reader_model(repo)
    fattrs = {"setup:channel width": 20.0, "setup:medium": b"CellCarrier",
              "experiment:sample": "abc", "user:My Key": 3,
              "user:note": b"written by other software",
              "online_filter:area_um,deform soft limit": True}
    want = sorted((k.split(":")[0], k.split(":")[1],
                   v.decode() if isinstance(v, bytes) else v)
                  for k, v in fattrs.items())
    for as_path in (False, True):
        how = "a path" if as_path else "an open file"
        assigned, cargs, raw, err = parse(fattrs, as_path)
        problems = []
        if err:
            problems.append(err)
        elif raw:
            problems.append(f"writes {raw[0]} into the raw dict")
        elif sorted(assigned, key=repr) != sorted(want, key=repr):
            miss = [w for w in want if w not in assigned]
            problems.append(
                f"assigns {assigned[:2]}..., expected every attribute as "
                f"config[section][key] = decoded value (missing/wrong: "
                f"{miss[:2]})")
        ctx.ob("R11.4", not problems, f"given {how}, every attribute "
               "'section:key' is assigned as config[section][key] with "
               "byte strings decoded" if not problems else
               f"parse_config given {how}: " + "; ".join(problems),
               node=pc, label=f"assign through funnel ({how})")
        if not err:
            a, k = cargs or ((), {})
            dis = k.get("disable_checks", a[2] if len(a) > 2 else False)
            pre = bool(a[:2]) or any(x in k for x in ("files", "cfg"))
            ok = cargs is not None and not dis and not pre
            ctx.ob("R11.4", ok, "the parsed configuration validates its "
                   "keys" if ok else "parse_config builds the "
                   "configuration with checks disabled / pre-filled "
                   "(values are stored unconverted)", node=pc,
                   label=f"checking Configuration ({how})")

    # configuration file
    lf = repo.func(CONF, "load_from_file")
    conv = [n for n in walk(lf) if isinstance(n, ast.If)
            and "config_key_exists" in txt(n.test)]
    ok = False
    if conv:
        body = " ".join(txt(s) for s in conv[0].body)
        pos = not isinstance(conv[0].test, ast.UnaryOp)
        blk = conv[0].body if pos else conv[0].orelse
        body = " ".join(txt(s) for s in blk)
        args = [txt(a) for a in conv[0].test.args] if isinstance(
            conv[0].test, ast.Call) else None
        ok = "get_config_value_func" in body and args is not None and all(
            a in body for a in args)
    ctx.ob("R11.4", ok, "values of known keys read from a file are "
           "converted with the key's converter" if ok else
           "load_from_file no longer converts known keys with their "
           "converter", node=conv[0] if conv else lf,
           label="file values converted")

    # the same, decided on a model file: what ends up in the configuration
    # (load_from_file, then Configuration.update -> __setitem__) equals what
    # item assignment of the same text stores
    model_file = [
        ("setup", "Channel Width", "20"),
        ("setup", "Identifier", "0815"),
        ("setup", "Medium", "true"),
        ("setup", "chip region", "Channel"),
        ("experiment", "Sample", "1e3"),
        ("experiment", "Run Index", "3"),
        ("experiment", "DATE", "2020-01-01"),
        ("imaging", "Flash Device", "False"),
        ("online_filter", "Area_um,Deform Soft Limit", "False"),
        ("online_filter", "target event count", "500"),
        ("setup", "Module Composition", "Cell_Flow_2, Fluor"),
        ("setup", "software version", "ShapeIn 2,0,6 | dclab 0.1"),
        ("experiment", "time", "12:00:01,5"),
    ]
    lines = ["# model file\n"]
    cur = None
    for sec, key, val in model_file:
        if sec != cur:
            lines.append(f"[{sec.title()}]\n")
            cur = sec
        lines.append(f"{key} = {val}  # comment\n")
    try:
        loaded = setitem.load(lines)
        lerr = None
    except ModelRaise as e:
        loaded, lerr = None, e
    for sec, key, val in model_file:
        want = setitem(sec, key, val)
        if len(want.stored) != 1:
            if ctx.findings():
                continue    # already reported by R11.1 - R11.3
            raise AnalysisError(f"model file: [{sec}] {key} = {val} is not "
                                "storable by item assignment")
        wk, wv = want.stored[0]
        problems = []
        if lerr is not None:
            problems.append(f"load_from_file raises {lerr.name}")
        else:
            secd = loaded.get(sec) if isinstance(loaded, dict) else None
            hits = [(k, v) for k, v in (secd or {}).items()
                    if isinstance(k, str) and k.lower() == wk]
            if len(hits) != 1:
                problems.append("the entry is not returned exactly once")
            else:
                got = setitem(sec, hits[0][0], hits[0][1])
                if len(got.stored) != 1:
                    problems.append(
                        f"the loaded value {hits[0][1]!r} is rejected by "
                        "the configuration")
                else:
                    gk, gv = got.stored[0]
                    if gk != wk or not same_value(gv, wv) or type_tag(
                            gv) != type_tag(wv):
                        problems.append(
                            f"the file gives {gk!r}: {gv!r} (loaded as "
                            f"{hits[0][1]!r}), item assignment of the same "
                            f"text gives {wk!r}: {wv!r} – the key is not "
                            "looked up under the funnel's lower-case "
                            "normalisation or the value by-passes the "
                            "key's converter")
        ctx.ob("R11.4", not problems,
               f"file line `{key} = {val}` in [{sec}] ends up as "
               f"{wk!r}: {wv!r}, like item assignment" if not problems else
               f"file line `{key} = {val}` in [{sec}]: "
               + "; ".join(problems), node=lf,
               key=f"{CONF}::load_from_file::[{sec}] {key} = {val}")

    # export carries all metadata sections + user: the statements of
    # Export.hdf5 that build the mapping handed to store_metadata are
    # interpreted on a model dataset (for-loop, comprehension, ... alike)
    ex = repo.func(EXP, "Export.hdf5")
    st = [c for c in find_calls(ex, attr="store_metadata", nested=False)]
    if len(st) != 1 or not st[0].args or not isinstance(
            st[0].args[0], ast.Name):
        raise AnalysisError("Export.hdf5: store_metadata(<name>) call lost")
    mname = st[0].args[0].id
    top = st[0]
    while top.parent is not ex:
        top = top.parent
    sl = [x for x in ex.body[:ex.body.index(top)]
          if mname in names_in(x)]
    if not sl:
        raise AnalysisError(f"Export.hdf5: no statement builds `{mname}`")
    meta_secs = list(mc.CFG_METADATA)
    ana_secs = list(mc.CFG_ANALYSIS)
    present = [x for x in meta_secs if x != "imaging"][:4] + ["experiment"]
    interp = Interp()
    raw_writes = []

    class ModelCD(dict):
        """ConfigurationDict stand-in: `.data` is the unvalidated store"""

        def __init__(self, section=None, *a, **k):
            super().__init__(*a, **k)
            self.section = section
            outer = self

            class Raw:
                model_object = True

                def update(self, *a2, **k2):
                    raw_writes.append("update")
                    dict.update(outer, *a2, **k2)

                def model_setitem(self, kk, vv):
                    raw_writes.append(kk)
                    dict.__setitem__(outer, kk, vv)

                def setdefault(self, kk, vv=None):
                    raw_writes.append(kk)
                    return dict.setdefault(outer, kk, vv)
            self.data = Raw()

        def copy(self):
            return ModelCD(self.section, self)
    for filtered in (False, True):
        del raw_writes[:]
        config = {sec: ModelCD(sec, {"some key": 1.0})
                  for sec in dict.fromkeys(present)}
        config["user"] = ModelCD("user", {"my key": "x"})
        for sec in ana_secs:
            config[sec] = ModelCD(sec, {"k": 1})
        ds = Namespace("ds", config=config,
                       get_measurement_identifier=lambda: "mid",
                       features_innate=[], features=[],
                       filter=Namespace("filter", all=[True, False]))
        loc = {"ds": ds, "filtered": filtered, "features": None}
        g = _env(repo, interp, EXP,
                 dfn=Namespace("dfn", CFG_METADATA=mc.CFG_METADATA,
                               CFG_ANALYSIS=mc.CFG_ANALYSIS,
                               config_keys=mc.config_keys),
                 uuid=Namespace("uuid", uuid4=lambda: "0123-4567"),
                 ConfigurationDict=ModelCD,
                 copy=Namespace("copy", deepcopy=_copy.deepcopy,
                                copy=_copy.copy))
        from ..lib_C11 import ClassModel
        loc["self"] = ClassModel(repo.cls(EXP, "Export"), g, interp,
                                 strict_instances=True).instance(rtdc_ds=ds)
        how = "filtered" if filtered else "unfiltered"
        problems = []
        try:
            interp.steps = 0
            interp.block(sl, loc, g, None)
            meta = loc.get(mname)
        except ModelRaise as e:
            raise AnalysisError(
                f"Export.hdf5: the statements building `{mname}` raise {e} "
                "on the model dataset (not modelled)")
        if meta is not None:
            if not isinstance(meta, dict):
                problems.append(f"`{mname}` is {type(meta).__name__}")
            else:
                want = sorted(set(present))
                got = sorted(k for k in meta if k != "user")
                if got != want:
                    problems.append(
                        f"sections {got} are exported, the dataset has the "
                        f"metadata sections {want} (analysis sections must "
                        "stay out)")
                for k in want:
                    if k in meta and meta[k] is config[k]:
                        problems.append(
                            f"section {k} is handed over without a copy "
                            "(later edits change the dataset's own "
                            "configuration)")
                        break
                if raw_writes:
                    problems.append(
                        "writes the `.data` of a ConfigurationDict directly "
                        "(values by-pass the converting __setitem__)")
                if filtered and config["experiment"] != {"some key": 1.0}:
                    problems.append("the filtered export edits the "
                                    "dataset's own [experiment] section")
        ctx.ob("R11.4", not problems, f"{how} export hands every metadata "
               "section of the dataset (as a copy) to store_metadata"
               if not problems else f"{how} export: " + "; ".join(problems),
               node=sl[0], key=f"{EXP}::Export.hdf5::export all metadata "
               f"sections ({how})")
        ok = isinstance(meta, dict) and meta.get("user") == {"my key": "x"}
        ctx.ob("R11.4", ok, f"{how} export carries the user section" if ok
               else f"{how} export drops user-defined metadata", node=sl[0],
               key=f"{EXP}::Export.hdf5::export user section ({how})")


def r114_rectify(ctx, repo):
    """carried-over metadata vs. the keys RTDCWriter.rectify_metadata derives
    on close: its docstring announces which keys are always rewritten
    ('updated') and which are only filled in ('added if not present');
    decided by interpreting the method on a model file whose attributes
    already hold a supplied value for every announced key"""
    import re
    from .C13 import H5Dataset, H5Group, N, H, W, SPE
    from ..lib_C11 import ClassModel
    rm = repo.func(WR, "RTDCWriter.rectify_metadata")
    doc = ast.get_docstring(rm) or ""
    mode = None
    announced = {}
    for line in doc.splitlines():
        low = line.lower()
        if "if not present" in low:
            mode = "fill"
        elif "updated" in low:
            mode = "update"
        mm = re.match(r"\s*-\s*([a-z_]+):\s*([a-z ]+?)\s*(\(.*\))?\s*$",
                      line)
        if mm and mode:
            announced[f"{mm.group(1)}:{mm.group(2)}"] = mode
    if len(announced) < 4 or "fill" not in announced.values() \
            or "update" not in announced.values():
        raise AnalysisError("rectify_metadata: docstring key lists "
                            f"('updated' / 'if not present') not "
                            f"recognised: {announced}")
    interp = Interp()
    g = _env(repo, interp, WR,
             h5py=Namespace("h5py", Dataset=H5Dataset, Group=H5Group))
    writer = ClassModel(repo.cls(WR, "RTDCWriter"), g, interp,
                        strict_instances=True)

    def run(preset):
        file = object()
        h5 = H5Group(file)
        ev = H5Group(file, "/events")
        h5["events"] = ev
        ev["deform"] = H5Dataset((N,), file)
        ev["fl1_max"] = H5Dataset((N,), file)
        ev["fl2_max"] = H5Dataset((N,), file)
        ev["image"] = H5Dataset((N, H, W), file)
        ev["trace"] = H5Group(file, "/events/trace")
        ev["trace"]["fl1_raw"] = H5Dataset((N, SPE), file)
        h5.attrs.update(preset)
        interp.steps = 0
        try:
            Func(rm, g, interp)(writer.instance(h5file=h5,
                                                path="model.rtdc"))
        except ModelRaise as e:
            raise AnalysisError(f"rectify_metadata raises {e} on the model "
                                "file")
        return dict(h5.attrs)
    derived = run({})
    supplied = 99
    got = run({k: supplied for k in announced})
    for key, mode in sorted(announced.items()):
        if key not in derived:
            raise AnalysisError(f"rectify_metadata: announced key {key} is "
                                "not derived for the model file")
        if derived[key] == supplied:
            raise AnalysisError("model values collide with the sentinel")
        if mode == "fill":
            ok = got.get(key) == supplied
            msg = (f"a supplied '{key}' survives closing the file (only "
                   "filled in when missing)" if ok else
                   f"a supplied / carried-over '{key}' = {supplied} is "
                   f"replaced by the derived {got.get(key)!r} on close "
                   "although the docstring says 'added if not present' "
                   "(the presence test does not look at the attribute it "
                   "writes)")
            label = f"keeps supplied {key}"
        else:
            ok = got.get(key) == derived[key]
            msg = (f"'{key}' is always re-derived from the data" if ok else
                   f"a stale '{key}' = {supplied} survives closing the "
                   f"file (derived value: {derived[key]!r}) although the "
                   "docstring says it is updated")
            label = f"rewrites {key}"
        ctx.ob("R11.4", ok, msg, node=rm,
               key=f"{WR}::RTDCWriter.rectify_metadata::{label}")


HIER = "dclab/rtdc_dataset/fmt_hierarchy/base.py"
TEXT_FORMS = ("as_dict", "tojson", "tostring")


def r114_copies(ctx, repo):
    """a child / copy of a Configuration keeps the value types: it is made
    with a type-preserving copy, never through a text / JSON form"""
    import json
    # (1) RTDC_Hierarchy._create_config interpreted on a model parent
    cc = repo.func(HIER, "RTDC_Hierarchy._create_config")
    interp = Interp()
    seen = []

    def to_plain(d):
        return json.loads(json.dumps(d, default=lambda o: list(o)))

    class ParentCfg(dict):
        def copy(self):
            return ParentCfg(_copy.deepcopy(dict(self)))

        def as_dict(self, pop_filtering=False):
            return to_plain(dict(self))

        def tojson(self):
            return json.dumps(dict(self), default=lambda o: list(o))

        def tostring(self, sections=None):
            return str(dict(self))

    def configuration(files=None, cfg=None, disable_checks=False):
        seen.append(cfg)
        return Namespace("Configuration", cfg=cfg)
    parent = ParentCfg({
        "filtering": {"area_um min": 1.0, "area_um max": 2.0,
                      "polygon filters": [1], "enable filters": True,
                      "hierarchy parent": "none"},
        "setup": {"channel width": 20.0},
        "user": {"pair": (1, 2), "nested": {"t": (3.5,)}},
    })
    g = _env(repo, interp, HIER, Configuration=configuration,
             copy=Namespace("copy", deepcopy=_copy.deepcopy,
                            copy=_copy.copy),
             json=Namespace("json", loads=json.loads, dumps=json.dumps))
    me = Namespace("self", hparent=Namespace(
        "hparent", config=parent, identifier="parent-id"))
    problems = []
    try:
        interp.steps = 0
        Func(cc, g, interp)(me)
    except ModelRaise as e:
        problems.append(f"raises {e.name}")
    if not problems:
        if len(seen) != 1 or not isinstance(seen[0], dict):
            problems.append("does not build the child Configuration from a "
                            "mapping")
        else:
            c = seen[0]
            pair = c.get("user", {}).get("pair")
            if not isinstance(pair, tuple) or pair != (1, 2):
                problems.append(
                    f"[user] 'pair' = (1, 2) of the parent arrives as "
                    f"{pair!r} in the child: the configuration went through "
                    "a text / JSON form (types of user metadata are lost)")
            filt = c.get("filtering", {})
            if any(k.endswith((" min", " max")) for k in filt) or \
                    "polygon filters" in filt:
                problems.append("the parent's filters are inherited")
            if filt.get("hierarchy parent") != "parent-id":
                problems.append("hierarchy parent not set")
            if parent["filtering"].get("area_um min") != 1.0 or parent[
                    "filtering"]["hierarchy parent"] != "none":
                problems.append("the parent's own configuration is "
                                "modified")
    ctx.ob("R11.4", not problems, "the hierarchy child receives a "
           "type-preserving copy of the parent's configuration (filters "
           "stripped, parent untouched)" if not problems else
           "RTDC_Hierarchy._create_config: " + "; ".join(problems), node=cc,
           key=f"{HIER}::RTDC_Hierarchy._create_config::types preserved")
    # (1b) RTDC_Hierarchy._update_config refreshes the child's sections in
    # place (through the validating dictionaries), it never swaps a section
    # for an unvalidated mapping
    uc = repo.func(HIER, "RTDC_Hierarchy._update_config", missing_ok=True)
    if uc is not None:
        log = []

        class Sec:
            model_object = True

            def __init__(self, name, data):
                self.name, self.store = name, dict(data)

            def model_setitem(self, k, v):
                log.append(("set", self.name, k))
                self.store[k] = v

            def update(self, other=(), **kw):
                for k, v in dict(other, **kw).items():
                    self.model_setitem(k, v)

            def clear(self):
                log.append(("clear", self.name))
                self.store.clear()

            def pop(self, k, *a):
                return self.store.pop(k, *a)

            def __contains__(self, k):
                return k in self.store

            def __getitem__(self, k):
                return self.store[k]

        class ChildCfg:
            model_object = True

            def __init__(self):
                self.secs = {"experiment": Sec("experiment", {}),
                             "calculation": Sec("calculation",
                                                {"stale key": 1})}

            def __getitem__(self, sec):
                return self.secs.setdefault(sec, Sec(sec, {}))

            def __contains__(self, sec):
                return sec in self.secs

            def model_setitem(self, sec, value):
                log.append(("replace", sec, type(value).__name__))
                self.secs[sec] = value if isinstance(value, Sec) else Sec(
                    sec, dict(value))
        child = ChildCfg()
        pconf = {"calculation": {"emodulus lut": "LE-2D-FEM-19",
                                 "emodulus temperature": 23.0},
                 "setup": {"channel width": 20.0}}
        g2 = _env(repo, interp, HIER,
                  np=Namespace("np", sum=lambda a: 3))
        me2 = Namespace("self", config=child, hparent=Namespace(
            "hparent", config=pconf, filter=Namespace("filter", all=[1])))
        problems = []
        try:
            interp.steps = 0
            Func(uc, g2, interp)(me2)
        except ModelRaise as e:
            problems.append(f"raises {e.name}")
        repl = [x for x in log if x[0] == "replace"]
        if repl:
            problems.append(
                f"replaces the child's [{repl[0][1]}] section by a "
                f"{repl[0][2]}: later assignments on the child skip "
                "conversion, lower-casing and the rejection of unknown keys")
        calc = child.secs["calculation"].store
        if not problems and calc != pconf["calculation"]:
            problems.append(f"child [calculation] is {calc}, the parent has "
                            f"{pconf['calculation']}")
        if not problems and child.secs["experiment"].store.get(
                "event count") != 3:
            problems.append("event count not refreshed")
        ctx.ob("R11.4", not problems, "the hierarchy child's sections are "
               "refreshed in place through the validating dictionaries"
               if not problems else "RTDC_Hierarchy._update_config: "
               + "; ".join(problems), node=uc,
               key=f"{HIER}::RTDC_Hierarchy._update_config::refresh in "
               "place")

    # (2) whole package: no Configuration is built from a text form
    n = 0
    for rel in repo.files("dclab/"):
        src = repo.src(rel)
        if "Configuration(" not in src or not any(
                t in src for t in TEXT_FORMS + ("json.loads",)):
            continue
        for q, f in repo.all_functions(rel):
            for c in {id(x): x for x in find_calls(
                    f, name="Configuration") + find_calls(
                    f, attr="Configuration")}.values():
                arg = kwarg(c, "cfg", 1)
                if arg is None:
                    continue
                n += 1
                exprs = [arg]
                if isinstance(arg, ast.Name):
                    exprs += [a.value for a in walk(f) if isinstance(
                        a, ast.Assign) and any(isinstance(t, ast.Name)
                                               and t.id == arg.id
                                               for t in a.targets)]
                bad = [x for e in exprs for x in ast.walk(e)
                       if isinstance(x, ast.Call) and (
                           last_attr(x) in TEXT_FORMS or call_name(x) in (
                               "json.loads", "json.dumps"))]
                ctx.ob("R11.4", not bad, "Configuration built from typed "
                       "values" if not bad else
                       f"Configuration built from `{short(bad[0], 40)}`: a "
                       "text / JSON form does not keep the value types",
                       node=c, label=f"typed source {short(c, 40)}")
    ctx.stat("R11.4 Configuration(cfg=...) sites next to text forms", n)


def _configuration_model(repo, setitem, bound_k, mc):
    """make(cfg, disable_checks) -> instance of the *interpreted*
    Configuration class (``__init__``, ``update``, ``__getitem__``, ``copy``
    ... run as written).  Its sections are stand-ins of ConfigurationDict
    whose every store goes through the interpreted ``__setitem__`` funnel of
    build_config_model (verification, converter of the key), so a typed value
    is whatever the key's converter returns and a [user] / unchecked value is
    the object that was handed in."""
    from ..lib_C11 import ClassModel, InstanceModel
    interp = Interp()
    conf = repo.cls(CONF, "Configuration")

    class SecDict(dict):
        model_object = True
        _PUBLIC = {"__setitem__", "__getitem__", "__contains__",
                   "__delitem__", "__iter__", "__len__", "get", "pop",
                   "setdefault", "update", "items", "keys", "values",
                   "section"}

        def __init__(self, section=None, *a, **k):
            dict.__init__(self)
            self.section = section
            src = dict(*a, **k)
            for kk in src:
                self[kk] = src[kk]

        def model_getattr(self, attr):
            if attr not in self._PUBLIC:
                raise AnalysisError(
                    f"Configuration model: ConfigurationDict.{attr} is not "
                    "modelled")
            return getattr(self, attr)

        def __setitem__(self, k, v):
            rec = setitem(self.section, k, v)
            if getattr(rec, "raised", None):
                raise ModelRaise(rec.raised, "ConfigurationDict.__setitem__")
            for kk, vv in rec.stored:
                dict.__setitem__(self, kk, vv)

        def __getitem__(self, k):
            try:
                return dict.__getitem__(self, bound_k(k))
            except KeyError:
                raise ModelRaise("KeyError", repr(k))

        def __contains__(self, k):
            return dict.__contains__(self, bound_k(k))

        def __delitem__(self, k):
            dict.__delitem__(self, bound_k(k))

        def get(self, k, *a):
            return dict.get(self, bound_k(k), *a)

        def pop(self, k, *a):
            return dict.pop(self, bound_k(k), *a)

        def setdefault(self, k, default=None):
            if k not in self:
                self[k] = default
            return dict.get(self, bound_k(k), default)

        def update(self, E=None, **F):
            for src in (E or {}, F):
                for kk in src:
                    self[kk] = src[kk]

        def items(self):
            return [(k, dict.__getitem__(self, k)) for k in sorted(self)]

        def copy(self):
            raise AnalysisError("Configuration model: ConfigurationDict.copy "
                                "is not modelled")

        def __copy__(self):
            new = SecDict.__new__(SecDict)
            new.section = self.section
            dict.update(new, self)
            return new

        def __deepcopy__(self, memo):
            new = SecDict.__new__(SecDict)
            memo[id(self)] = new
            new.section = self.section
            for k in self:
                dict.__setitem__(new, k, _copy.deepcopy(
                    dict.__getitem__(self, k), memo))
            return new

    class Instance(InstanceModel):
        """operators on a Configuration reach its interpreted dunders"""

        def __getitem__(self, k):
            return self.model_getattr("__getitem__")(k)

        def __contains__(self, k):
            return self.model_getattr("__contains__")(k)

        def __iter__(self):
            return iter(self.model_getattr("__iter__")())

        def __len__(self):
            return self.model_getattr("__len__")()

        def keys(self):
            return self.model_getattr("keys")()

    def warn(*a, **k):
        return None
    warn.model_callable = True
    dfn = Namespace("dfn", config_keys=mc.config_keys,
                    CFG_METADATA=mc.CFG_METADATA,
                    CFG_ANALYSIS=mc.CFG_ANALYSIS)
    g = _env(repo, interp, CONF, dfn=dfn, ConfigurationDict=SecDict,
             warnings=Namespace("warnings", warn=warn),
             copy=Namespace("copy", deepcopy=_copy.deepcopy,
                            copy=_copy.copy))

    def ctor(*a, **k):
        inst = Instance(model)
        init = model._methods.get("__init__")
        if init is None:
            raise AnalysisError("Configuration.__init__ vanished")
        Func(init, g, interp)(inst, *a, **k)
        return inst
    model = ClassModel(conf, g, interp, ctor=ctor, strict_instances=True)
    g.set("Configuration", model)

    def make(cfg=None, disable_checks=False):
        interp.steps = 0
        return model(cfg=cfg, disable_checks=disable_checks)
    make.interp = interp
    make.SecDict = SecDict
    make.Instance = Instance
    return conf, make


_MUTABLE = (list, dict, set, bytearray, NdArray)


def _mutable_objects(v, path, out, depth=0):
    """{id: path} of every mutable object reachable from a stored value"""
    if depth > 6:
        return
    if isinstance(v, _MUTABLE):
        out.setdefault(id(v), path)
    if isinstance(v, dict):
        for k in v:
            _mutable_objects(dict.__getitem__(v, k), f"{path}[{k!r}]", out,
                             depth + 1)
    elif isinstance(v, (list, tuple, set)):
        for i, x in enumerate(v):
            _mutable_objects(x, f"{path}[{i}]", out, depth + 1)
    elif isinstance(v, NdArray):
        _mutable_objects(v.data, path + ".data", out, depth + 1)


def _tree_equal(a, b):
    """_py_equal that also descends into mappings"""
    if isinstance(a, dict) or isinstance(b, dict):
        if not (isinstance(a, dict) and isinstance(b, dict)):
            return False
        return sorted(a, key=repr) == sorted(b, key=repr) and all(
            _tree_equal(dict.__getitem__(a, k), dict.__getitem__(b, k))
            for k in a)
    seq = (list, tuple, NdArray)
    if isinstance(a, seq) or isinstance(b, seq):
        if not (isinstance(a, seq) and isinstance(b, seq)):
            return False
        la, lb = list(a), list(b)
        return len(la) == len(lb) and all(
            _tree_equal(x, y) for x, y in zip(la, lb))
    return _py_equal(a, b)


def r116(ctx, repo, setitem, bound_k, mc):
    """a copy of a configuration shares no mutable object with the original
    (an in-place edit of a value in a copy / hierarchy child / the filter's
    bookkeeping copy must not change the metadata of the dataset it was taken
    from, which is what that dataset exports)"""
    conf, make = _configuration_model(repo, setitem, bound_k, mc)
    cp = repo.func(CONF, "Configuration.copy")

    def sections(inst):
        """{section: stand-in dict} of a model instance, through its public
        interface"""
        return {sec: inst[sec] for sec in list(inst.keys())}

    scenarios = (
        ("checked", False,
         lambda: {"setup": {"channel width": 20.0, "medium": "CellCarrier"},
                  "filtering": {"polygon filters": [1, 2],
                                "area_um min": 1.5},
                  "user": {"gate ids": [1, 2, 3],
                           "calib": NdArray.of([1.0, 2.5]),
                           "nested": {"thresholds": [10, 20]},
                           "pair": (1, [2, 3]), "note": "text", "n": 4}}),
        ("unchecked (disable_checks)", True,
         lambda: {"setup": {"channel width": 20.0},
                  "filtering": {"polygon filters": [3]},
                  "user": {"gate ids": [1, 2, 3],
                           "table": [[1, 2], [3, 4]]}}),
    )
    for tag, nochk, build in scenarios:
        problems = []
        try:
            orig = make(cfg=build(), disable_checks=nochk)
            before = _copy.deepcopy({s: dict(d) for s, d in
                                     sections(orig).items()})
            make.interp.steps = 0
            new = orig.model_getattr("copy")()
        except ModelRaise as e:
            raise AnalysisError(f"R11.6: Configuration model ({tag}) raises "
                                f"{e}")
        # sections created by update() and by the convenience __getitem__
        # validate their keys unless checks are disabled (R11.1, evaluated)
        try:
            probe = make(cfg={"setup": {"channel width": 20.0}},
                         disable_checks=nochk)
            got = {"update": probe["setup"], "__getitem__": probe["imaging"],
                   "__getitem__ (user)": probe["user"]}
        except ModelRaise as e:
            raise AnalysisError(f"R11.1: Configuration model ({tag}) raises "
                                f"{e}")
        for (route, d), sec in zip(got.items(), ("setup", "imaging", "user")):
            want = None if nochk else sec
            have = getattr(d, "section", "<no ConfigurationDict>")
            ok = isinstance(d, make.SecDict) and have == want
            ctx.ob("R11.1", ok,
                   f"{tag}: the [{sec}] section created by {route} is a "
                   f"ConfigurationDict(section={want!r})" if ok else
                   f"{tag}: the [{sec}] section created by {route} is "
                   + (f"a ConfigurationDict(section={have!r}), expected "
                      f"section={want!r}" if isinstance(d, make.SecDict)
                      else f"a {type(d).__name__}")
                   + (": its keys are not validated / converted" if not nochk
                      else ": foreign files warn on every key"),
                   node=conf, key=f"{CONF}::Configuration::section created "
                   f"by {route} ({tag})")
        if not isinstance(new, make.Instance):
            raise AnalysisError("R11.6: Configuration.copy does not return a "
                                "Configuration the model can follow "
                                f"({type(new).__name__})")
        if new is orig:
            problems.append("copy() returns the configuration itself")
        else:
            so, sn = sections(orig), sections(new)
            # the copy holds what the original holds ...
            for sec, d in so.items():
                if sec not in sn:
                    problems.append(f"section [{sec}] is missing in the copy")
                    continue
                for k in d:
                    if k not in sn[sec] or not _tree_equal(
                            dict.__getitem__(d, k),
                            dict.__getitem__(sn[sec], k)):
                        problems.append(
                            f"[{sec}] '{k}' = {dict.__getitem__(d, k)!r} "
                            "arrives as "
                            f"{dict.get(sn[sec], k)!r} in the copy")
            # ... in objects of its own
            mo, mn = {}, {}
            for sec, d in so.items():
                _mutable_objects(d, f"[{sec}]", mo)
            for sec, d in sn.items():
                _mutable_objects(d, f"[{sec}]", mn)
            shared = sorted(mo[i] for i in set(mo) & set(mn))
            if shared:
                problems.append(
                    f"the copy and the original hold the SAME mutable "
                    f"object at {', '.join(shared[:3])}"
                    + (f" (+{len(shared) - 3} more)" if len(shared) > 3
                       else "") + ": an in-place edit in the copy changes "
                    "the original's metadata")
            # the original is left as it was
            after = {s: dict(d) for s, d in sections(orig).items()}
            if not problems and not _tree_equal(after, before):
                problems.append("copy() modifies the original")
        ctx.ob("R11.6", not problems,
               f"copy() of a {tag} configuration holds equal values in "
               "objects of its own" if not problems else
               f"Configuration.copy ({tag}): " + "; ".join(problems[:2]),
               node=cp, key=f"{CONF}::Configuration.copy::independent of "
               f"the original ({tag})")


def _ancestors(n):
    p = getattr(n, "parent", None)
    while p is not None:
        yield p
        p = getattr(p, "parent", None)


# ----------------------------------------------------------------------

def _guard(rid, fn, *args):
    """an unrecognised shape must surface as a named analysis error, never
    as a traceback"""
    import traceback
    try:
        return fn(*args)
    except AnalysisError:
        raise
    except ModelRaise as e:
        raise AnalysisError(f"{rid}: interpreted code raises {e} outside a "
                            "modelled scenario")
    except Exception as e:
        tb = traceback.extract_tb(e.__traceback__)
        mine = [f for f in tb if f.filename.endswith(("C11.py",
                                                      "lib_C11.py"))]
        at = f"{mine[-1].name}:{mine[-1].lineno}" if mine else "?"
        raise AnalysisError(
            f"{rid}: unrecognised code shape ({type(e).__name__}: {e}) in "
            f"{fn.__name__} at {at}")


def run(ctx):
    repo = ctx.repo
    ctx.rule("R11.1", "every mutation route of ConfigurationDict / "
             "Configuration reaches the validating __setitem__, keys pass "
             "_k, the modelled store converts and lower-cases", minimum=30)
    ctx.rule("R11.2", "every table entry has a known converter, derived "
             "tables agree, the funnel stores converted values "
             "case-insensitively; online_filter resolvers agree",
             minimum=125)
    ctx.rule("R11.3", "unknown key / section, empty string and None warn "
             "and never reach the store", minimum=25)
    ctx.rule("R11.4", "writer converts with the key's converter and decodes "
             "bytes; reader assigns through a checking Configuration; file "
             "values converted; export carries all sections", minimum=24)
    ctx.rule("R11.5", "every converter accepts its declared output types "
             "and the HDF5 image of its outputs, returns a declared type, "
             "is idempotent (modelled numpy hierarchy)", minimum=45)
    ctx.rule("R11.6", "a copy of a Configuration (interpreted class on a "
             "model configuration with mutable [user] / unchecked values) "
             "shares no mutable object with the original", minimum=2)
    try:
        mp, mc, ml = load_definitions(repo)
    except ModelRaise as e:
        raise AnalysisError(f"definitions model: module code raises {e}")
    if not isinstance(getattr(mp, "func_types", None), dict):
        raise AnalysisError(f"{MP}: func_types vanished")
    for fn in ("config_key_exists", "get_config_value_func",
               "get_config_value_type"):
        if not callable(getattr(ml, fn, None)):
            raise AnalysisError(f"{ML}: {fn} vanished")
    setitem, verify, bound_k = _guard("model", build_config_model, repo,
                                      mc, ml)
    _guard("R11.1", r111, ctx, repo)
    storable = _guard("R11.2", r112, ctx, repo, mp, mc, ml, setitem)
    _guard("R11.3", r113, ctx, repo, mp, mc, setitem, verify, bound_k)
    _guard("R11.4", r114, ctx, repo, setitem, mc, ml)
    _guard("R11.4", r114_rectify, ctx, repo)
    _guard("R11.4", r114_copies, ctx, repo)
    _guard("R11.5", r115, ctx, repo, mp, mc, ml, storable)
    _guard("R11.6", r116, ctx, repo, setitem, bound_k, mc)
    ctx.model = (mp, mc, ml)
    ctx.evals = ctx.stats.pop("_evals")


def crossval(ctx):
    """thorough: compare the folded tables, the modelled type hierarchy, the
    HDF5 image table and every modelled converter outcome with the imported
    package (validates the analyser's model, decides nothing)"""
    import json
    import os
    import subprocess
    mp, mc, ml = ctx.model
    tables = {}
    for tname in ("CFG_METADATA", "CFG_ANALYSIS"):
        tables[tname] = {sec: [[e[0], conv_name(e[1])] for e in ents]
                         for sec, ents in getattr(mc, tname).items()}
    types = {}
    for sec, d in mc.config_types.items():
        for k, t in d.items():
            types[f"{sec}:{k}"] = sorted(
                t_name(x) for x in (t if isinstance(t, tuple) else (t,)))
    code = r"""
import json, sys, numbers
import numpy as np, h5py
from dclab.definitions import meta_const as mc, meta_parse as mp
def tn(t):
    return {np.bool_: "np.bool_", np.ndarray: "np.ndarray",
            numbers.Integral: "numbers.Integral",
            numbers.Number: "numbers.Number"}.get(t, getattr(t, "__name__", repr(t)))
def tag(v):
    for c, n in ((np.bool_, "np.bool_"), (np.int64, "np.int64"),
                 (np.float64, "np.float64"), (np.ndarray, "np.ndarray")):
        if isinstance(v, c):
            return n
    return type(v).__name__
def plain(v):
    if isinstance(v, (list, tuple, np.ndarray)):
        return [plain(x) for x in v]
    if isinstance(v, (bool, np.bool_)):
        return bool(v)
    if isinstance(v, str):
        return v
    return float(v)
out = {}
out["tables"] = {n: {s: [[e[0], e[1].__name__] for e in ents]
                     for s, ents in getattr(mc, n).items()}
                 for n in ("CFG_METADATA", "CFG_ANALYSIS")}
out["types"] = {f"{s}:{k}": sorted(tn(x) for x in (t if isinstance(t, tuple) else (t,)))
                for s, d in mc.config_types.items() for k, t in d.items()}
out["hier"] = [isinstance(np.float64(1), float),
               isinstance(np.bool_(1), (bool, int, numbers.Number)),
               isinstance(np.int64(1), int),
               isinstance(np.int64(1), numbers.Integral)]
with h5py.File("x.h5", "w", driver="core", backing_store=False) as h:
    img = {}
    for nm, v in (("bool", True), ("int", 3), ("float", 1.5), ("str", "a"),
                  ("tuple", (1.0, 2.0)), ("list", [1, 2]),
                  ("ndarray", np.zeros((3, 2)))):
        h.attrs[nm] = v
        img[nm] = tag(h.attrs[nm])
out["h5"] = img
convs = dict(vars(mp))
convs.update({"float": float, "str": str})
res = []
for name, xs in json.load(sys.stdin):
    try:
        y = convs[name](eval(xs, {"np": np}))
        res.append(["ok", tag(y), plain(y)])
    except (ValueError, TypeError, AttributeError) as e:
        res.append(["raise", type(e).__name__, None])
out["evals"] = res
print(json.dumps(out))
"""
    env = dict(os.environ)
    env["PYTHONPATH"] = str(ctx.repo.root)
    try:
        r = subprocess.run(["/venv/bin/python", "-W", "ignore", "-c", code],
                           input=json.dumps([[e[0], e[1]]
                                             for e in ctx.evals]),
                           capture_output=True, text=True, timeout=120,
                           cwd="/tmp", env=env)
        real = json.loads(r.stdout.strip().splitlines()[-1])
    except Exception as e:
        return {"status": "skipped", "reason": str(e)[:200]}
    if real["tables"] != tables:
        raise AnalysisError("folded metadata tables disagree with the "
                            "imported package")
    if real["types"] != types:
        diff = [k for k in types if real["types"].get(k) != types[k]][:3]
        raise AnalysisError("interpreted config_types disagree with the "
                            f"imported package: {diff}")
    if real["hier"] != [True, False, False, True]:
        raise AnalysisError("numpy scalar hierarchy differs from the model: "
                            f"{real['hier']}")
    want_img = {"bool": "np.bool_", "int": "np.int64", "float": "np.float64",
                "str": "str", "tuple": "np.ndarray", "list": "np.ndarray",
                "ndarray": "np.ndarray"}
    if real["h5"] != want_img:
        raise AnalysisError("HDF5 image table differs from h5py: "
                            f"{real['h5']}")
    bad = []
    for mine, theirs in zip(ctx.evals, real["evals"]):
        m = [mine[2], mine[3], mine[4]]
        if m[0] == "raise":
            same = theirs[0] == "raise"
        else:
            same = m == theirs
        if not same:
            bad.append((mine[0], mine[1], m, theirs))
    if bad:
        raise AnalysisError("converter model disagrees with the imported "
                            f"package: {bad[:3]}")
    return {"status": "agrees", "table_entries": sum(
        len(v) for t in tables.values() for v in t.values()),
        "converter_outcomes": len(ctx.evals), "hdf5_image_types": 7,
        "hierarchy_facts": 4}


MUTANTS = [
    # ---- R11.1
    ("update writes the raw dict", CONF,
     ("            self.__setitem__(key, E[key])",
      "            self.data[key] = E[key]"), "R11.1"),
    ("update ignores keyword entries", CONF,
     ("        for key in F:\n            self.__setitem__(key, F[key])\n",
      ""), "R11.1"),
    ("update through the mixin of dict", CONF,
     ("        for key in E:\n            self.__setitem__(key, E[key])\n",
      "        self.data.update(E)\n"), "R11.1"),
    ("section set after the initial data", CONF,
     ("        self.section = section\n"
      "        super(ConfigurationDict, self).__init__(*args, **kwargs)\n",
      "        super(ConfigurationDict, self).__init__(*args, **kwargs)\n"
      "        self.section = section\n"), "R11.1"),
    ("get is case-sensitive", CONF,
     ("                     self).get(self.__class__._k(key), *args, "
      "**kwargs)", "                     self).get(key, *args, **kwargs)"),
     "R11.1"),
    ("pop is case-sensitive", CONF,
     ("                     self).pop(self.__class__._k(key), *args, "
      "**kwargs)", "                     self).pop(key, *args, **kwargs)"),
     "R11.1"),
    ("_k keeps the case", CONF,
     ("        return key.lower() if isinstance(key, str) else key",
      "        return key"), "R11.1"),
    ("_k breaks on non-string keys", CONF,
     ("        return key.lower() if isinstance(key, str) else key",
      "        return key.lower()"), "R11.1"),
    ("sections created without section name", CONF,
     ("            section = None if self.disable_checks else sec\n"
      "            self._cfg[sec] = ConfigurationDict(section=section)\n"
      "        item =",
      "            self._cfg[sec] = ConfigurationDict()\n        item ="),
     "R11.1"),
    ("disable_checks inverted in update", CONF,
     ("                section = None if self.disable_checks else sec\n"
      "                self._cfg[sec] = ConfigurationDict(section=section)\n"
      "            self._cfg[sec].update",
      "                section = sec if self.disable_checks else None\n"
      "                self._cfg[sec] = ConfigurationDict(section=section)\n"
      "            self._cfg[sec].update"), "R11.1"),
    ("Configuration.update fills the raw dict", CONF,
     ("            self._cfg[sec].update(newcfg[sec])",
      "            self._cfg[sec].data.update(newcfg[sec])"), "R11.1"),
    ("reader writes the raw dict", H5,
     ("            config[section][pname] = h5attrs[key]",
      "            config[section].data[pname] = h5attrs[key]"), "R11.1"),
    ("value not converted on assignment", CONF,
     ("                value = convfunc(value)\n", ""), "R11.1"),
    ("key not lower-cased on assignment", CONF,
     ("        key = self.__class__._k(key)\n        # make sure",
      "        # make sure"), "R11.1"),
    # ---- R11.3
    ("store outside the validity test", CONF,
     ("\n            super(ConfigurationDict, self).__setitem__(key, value)",
      "\n        super(ConfigurationDict, self).__setitem__(key, value)"),
     "R11.3"),
    ("None only warns", CONF,
     ("                BadUserConfigurationValueWarning,\n            )\n"
      "            valid = False\n",
      "                BadUserConfigurationValueWarning,\n            )\n"),
     "R11.3"),
    ("None check only for section-aware dicts", CONF,
     ("        if value is None:\n",
      "        if value is None and self.section:\n"), "R11.3"),
    ("empty string only warns", CONF,
     ("                    EmptyConfigurationKeyWarning,\n                )\n"
      "                valid = False\n",
      "                    EmptyConfigurationKeyWarning,\n                )\n"),
     "R11.3"),
    ("empty-string test inverted", CONF,
     ("isinstance(value, str) and len(value) == 0",
      "isinstance(value, str) and len(value) != 0"), "R11.3"),
    ("unknown key in known section not counted", CONF,
     ('            "Unknown key \'{}\' in the \'{}\' section!".format(key, '
      'section),\n            UnknownConfigurationKeyWarning)\n'
      '        wcount += 1\n',
      '            "Unknown key \'{}\' in the \'{}\' section!".format(key, '
      'section),\n            UnknownConfigurationKeyWarning)\n'), "R11.3"),
    ("verify_section_key always true", CONF,
     ("    return wcount == 0", "    return wcount >= 0"), "R11.3"),
    ("range test for unknown feature inverted", CONF,
     ("            if not dfn.scalar_feature_exists(feat):",
      "            if dfn.scalar_feature_exists(feat):"), "R11.3"),
    ("unknown section silently accepted", CONF,
     ('        warnings.warn("Unknown section \'{}\'!".format(section),\n'
      '                      UnknownConfigurationKeyWarning)\n'
      '        wcount += 1\n', '        pass\n'), "R11.3"),
    # ---- R11.2
    ("fint not registered in func_types", MP,
     ("    fint: numbers.Integral,\n", ""), "R11.2"),
    ("table key with capitals", MC,
     ('["flow rate", float,', '["Flow Rate", float,'), "R11.2"),
    ("lambda converter in the table", MC,
     ('["pixel size", float, "Pixel size [µm]"]',
      '["pixel size", lambda x: float(x), "Pixel size [µm]"]'), "R11.2"),
    ("analysis section shadows a metadata section", MC,
     ('    "calculation": [', '    "setup": ['), "R11.2"),
    ("config_funcs takes the description", MC,
     ("        config_funcs[_key][_subkey] = _type",
      "        config_funcs[_key][_subkey] = __"), "R11.2"),
    ("config_types keeps the function", MC,
     ("        if _type in func_types:\n"
      "            _type = func_types[_type]\n", ""), "R11.2"),
    ("analysis tables not merged", MC,
     ("_cfg.update(CFG_ANALYSIS)\n", ""), "R11.2"),
    ("soft limit typed as integer", ML,
     ("            typ = meta_parse.func_types[meta_parse.fbool]",
      "            typ = meta_parse.func_types[meta_parse.fint]"), "R11.2"),
    ("polygon points not converted", ML,
     ('        elif key.endswith("polygon points"):\n'
      '            # "online_filter:area_um,deform polygon points"\n'
      '            func = meta_parse.f2dfloatarray\n', ""), "R11.2"),
    ("polygon points keys do not exist", ML,
     ('                and (key.endswith("soft limit")\n'
      '                     or key.endswith("polygon points"))):\n'
      '            # "online_filter:area_um,deform soft limit"\n'
      '            # "online_filter:area_um,deform polygon points"\n'
      '            f1, f2 = key.split(" ", 1)[0].split(",")\n'
      '            valid =',
      '                and key.endswith("soft limit")):\n'
      '            f1, f2 = key.split(" ", 1)[0].split(",")\n'
      '            valid ='), "R11.2"),
    ("second feature of a pair not checked", ML,
     ("            valid = (feat_logic.scalar_feature_exists(f1)\n"
      "                     and feat_logic.scalar_feature_exists(f2))",
      "            valid = feat_logic.scalar_feature_exists(f1)"), "R11.2"),
    ("user keys get a converter", ML,
     ('    func = None\n    if section == "user":\n        pass\n',
      '    func = None\n    if section == "user":\n        func = str\n'),
     "R11.2"),
    # ---- R11.4
    ("writer skips the converter", WR,
     ("                    self.h5file.attrs[idk] = convfunc(value)",
      "                    self.h5file.attrs[idk] = value"), "R11.4"),
    ("writer looks up the converter with swapped arguments", WR,
     ("convfunc = dfn.get_config_value_func(sec, ck)",
      "convfunc = dfn.get_config_value_func(ck, sec)"), "R11.4"),
    ("writer stores bytes", WR,
     ('                    value = value.decode("utf-8")\n',
      '                    pass\n'), "R11.4"),
    ("writer accepts unknown keys", WR,
     ("                if not dfn.config_key_exists(sec, ck):",
      "                if not ck:"), "R11.4"),
    ("writer accepts analysis sections", WR,
     ("            elif sec not in dfn.CFG_METADATA:",
      "            elif sec not in dfn.config_keys:"), "R11.4"),
    ("attribute name separator", WR,
     ('                idk = f"{sec}:{ck}"', '                idk = f"{sec}.{ck}"'),
     "R11.4"),
    ("reader disables the checks", H5,
     ("        config = Configuration()",
      "        config = Configuration(disable_checks=True)"), "R11.4"),
    ("reader keeps byte strings", H5,
     ('                h5attrs[key] = h5attrs[key].decode("utf-8")',
      '                pass'), "R11.4"),
    ("config file values not converted", CONF,
     ("                convfunc = dfn.get_config_value_func(sec, var)\n"
      "                val = convfunc(val)\n", "                pass\n"),
     "R11.4"),
    ("export drops the user section", EXP,
     ('            meta["user"] = ds.config["user"].copy()',
      '            pass'), "R11.4"),
    # ---- R11.5
    ("fint declared as float", MP,
     ("    fint: numbers.Integral,", "    fint: float,"), "R11.5"),
    ("duple returned as list", MP,
     ("    value = tuple(float(i) for i in value)",
      "    value = list(float(i) for i in value)"), "R11.5"),
    ("duple dimension test off by one", MP,
     ("    if np.array(value).ndim != 1:", "    if np.array(value).ndim != 2:"),
     "R11.5"),
    ("boolorfloat rejects floats", MP,
     ("    elif isinstance(value, (int, float)):\n        return float(value)",
      "    elif isinstance(value, int):\n        return float(value)"),
     "R11.5"),
    ("fbool loses the 'true' string", MP,
     ('        if value == "false":\n            value = False\n'
      '        elif value == "true":\n            value = True\n'
      '        elif value:\n            value = bool(float(value))',
      '        if value == "false":\n            value = False\n'
      '        elif value:\n            value = bool(float(value))'),
     "R11.5"),
    ("fbool: non-empty string is true", MP,
     ("        elif value:\n            value = bool(float(value))\n"
      "        else:\n            raise ValueError(\"Empty string provided "
      "for fbool!\")",
      "        elif value:\n            value = bool(value)\n"
      "        else:\n            raise ValueError(\"Empty string provided "
      "for fbool!\")"), "R11.5"),
    ("fint via int() of the string", MP,
     ("            value = int(float(value))\n        else:\n"
      "            raise ValueError(\"Empty string provided for fint!\")",
      "            value = int(value)\n        else:\n"
      "            raise ValueError(\"Empty string provided for fint!\")"),
     None),
    ("2d array converted to nested list", MP,
     ("    return np.array(value, dtype=np.float64)",
      "    return list(np.array(value, dtype=np.float64))"), "R11.5"),
]

TWINS = [
    ("update written with item assignment", CONF,
     [("            self.__setitem__(key, E[key])", "            self[key] = E[key]"),
      ("            self.__setitem__(key, F[key])", "            self[key] = F[key]")]),
    ("redundant _convert_keys call removed", CONF,
     ("        super(ConfigurationDict, self).__init__(*args, **kwargs)\n"
      "        self._convert_keys()\n",
      "        super(ConfigurationDict, self).__init__(*args, **kwargs)\n")),
    ("__setitem__ in early-return form", CONF,
     ("        if valid:\n            # only set valid keys\n",
      "        if not valid:\n            return\n        if True:\n")),
    ("dispatch of fboolorfloat split into two tests", MP,
     ("    elif isinstance(value, (int, float)):\n        return float(value)",
      "    elif isinstance(value, int) or isinstance(value, float):\n"
      "        return float(value)")),
    ("verify_section_key returns not wcount", CONF,
     ("    return wcount == 0", "    return not wcount")),
    ("writer inlines the converter lookup", WR,
     ("                    convfunc = dfn.get_config_value_func(sec, ck)\n"
      "                    self.h5file.attrs[idk] = convfunc(value)",
      "                    self.h5file.attrs[idk] = "
      "dfn.get_config_value_func(sec, ck)(value)")),
    ("reader with explicit checks", H5,
     ("        config = Configuration()",
      "        config = Configuration(disable_checks=False)")),
    ("table entry as tuple", MC,
     ('        ["date", str, "Date of measurement (\'YYYY-MM-DD\')"],',
      '        ("date", str, "Date of measurement (\'YYYY-MM-DD\')"),')),
    ("resolver compares the suffix via a tuple", ML,
     ('        elif key.endswith("min") or key.endswith("max"):\n'
      '            # most-general type is a number',
      '        elif key.endswith(("min", "max")):\n'
      '            # most-general type is a number')),
]

# mutants that re-introduce the repaired defects (apply to the fixed tree)
MUTANTS = list(MUTANTS) + [
    ("np.bool_ rejected again (F11 returns)",
     "dclab/definitions/meta_parse.py",
     ("(str, bool, np.bool_)) or value == 0:", "(str, bool)) or value == 0:"),
     "R11.5"),
    ("zeros dropped again (F11c returns)",
     "dclab/definitions/meta_parse.py",
     ("        if isinstance(it, str) and not it.strip():\n"
      "            # ignore empty entries (e.g. from \"[]\" or a trailing "
      "comma)\n            continue\n        outlist.append(fint(it))",
      "        if it:\n            outlist.append(fint(it))"), "R11.5"),
    ("in-place union through the raw dict (F11b returns)",
     "dclab/rtdc_dataset/config.py",
     ("        self.update(other)\n        return self",
      "        self.data.update(other)\n        return self"), "R11.1"),
]

# seeded change: the key read from a file is no longer lower-cased before the
# known-key lookup (mixed-case keys go through the type guesser)
MUTANTS = list(MUTANTS) + [
    ("file keys looked up case-sensitively", CONF,
     ("            var = var.strip().lower()\n            val = val.strip(",
      "            var = var.strip()\n            val = val.strip("), "R11.4"),
    ("file values of known keys always guessed", CONF,
     ("            if dfn.config_key_exists(sec, var):\n"
      "                convfunc",
      "            if False:\n                convfunc"), "R11.4"),
]
TWINS = list(TWINS) + [
    ("file key lower-cased at the lookup instead", CONF,
     [("            var = var.strip().lower()\n            val = val.strip(",
       "            var = var.strip()\n            val = val.strip("),
      ("            if dfn.config_key_exists(sec, var):\n"
       "                convfunc = dfn.get_config_value_func(sec, var)",
       "            if dfn.config_key_exists(sec, var.lower()):\n"
       "                convfunc = dfn.get_config_value_func(sec, "
       "var.lower())")]),
    ("file key normalised in the other order", CONF,
     ("            var = var.strip().lower()\n            val = val.strip(",
      "            var = var.lower().strip()\n            val = val.strip(")),
]

# behaviour-preserving maintenance refactorings (reduced)
TWINS = list(TWINS) + [
    ("conversion extracted into a private method, early return", CONF,
     [("        if valid:\n            # only set valid keys\n"
       "            if self.section:\n"
       "                typ = dfn.get_config_value_type(self.section, key)\n"
       "                if typ is not None and not isinstance(value, typ):\n"
       "                    warnings.warn(\n"
       "                        f\"Type of configuration key "
       "[{self.section}]: {key} \"\n"
       "                        f\"should be {typ}, got {type(value)}!\",\n"
       "                        WrongConfigurationTypeWarning)\n"
       "                # convert value to its correct type (independent of "
       "case above)\n"
       "                convfunc = dfn.get_config_value_func(self.section, "
       "key)\n"
       "                value = convfunc(value)\n\n"
       "            super(ConfigurationDict, self).__setitem__(key, value)\n",
       "        if not valid:\n            return\n"
       "        if self.section:\n"
       "            value = self._check_and_convert_value(key, value)\n"
       "        super(ConfigurationDict, self).__setitem__(key, value)\n\n"
       "    def _check_and_convert_value(self, key, value):\n"
       "        typ = dfn.get_config_value_type(self.section, key)\n"
       "        if typ is not None and not isinstance(value, typ):\n"
       "            warnings.warn(\n"
       "                f\"Type of configuration key [{self.section}]: "
       "{key} \"\n"
       "                f\"should be {typ}, got {type(value)}!\",\n"
       "                WrongConfigurationTypeWarning)\n"
       "        convfunc = dfn.get_config_value_func(self.section, key)\n"
       "        return convfunc(value)\n")]),
    ("writer with a single attribute-assignment point", WR,
     ("                if sec == \"user\":\n"
      "                    # store user-defined metadata as-is\n"
      "                    self.h5file.attrs[idk] = value\n"
      "                else:\n"
      "                    # pipe the metadata through the hard-coded "
      "converter\n"
      "                    # functions\n"
      "                    convfunc = dfn.get_config_value_func(sec, ck)\n"
      "                    self.h5file.attrs[idk] = convfunc(value)\n",
      "                if sec != \"user\":\n"
      "                    convfunc = dfn.get_config_value_func(sec, ck)\n"
      "                    value = convfunc(value)\n"
      "                self.h5file.attrs[idk] = value\n")),
    ("reader iterates items(), isinstance branches swapped", H5,
     [("        if not isinstance(h5path, h5py.File):\n"
       "            with h5py.File(h5path, mode=\"r\") as fh5:\n"
       "                h5attrs = dict(fh5.attrs)\n"
       "        else:\n"
       "            h5attrs = dict(h5path.attrs)\n",
       "        if isinstance(h5path, h5py.File):\n"
       "            h5attrs = dict(h5path.attrs)\n"
       "        else:\n"
       "            with h5py.File(h5path, mode=\"r\") as fh5:\n"
       "                h5attrs = dict(fh5.attrs)\n"),
      ("        for key in h5attrs:\n"
       "            section, pname = key.split(\":\")\n"
       "            config[section][pname] = h5attrs[key]\n",
       "        for key, value in h5attrs.items():\n"
       "            section, pname = key.split(\":\")\n"
       "            config[section][pname] = value\n")]),
]

# round-2 seeded changes
MUTANTS = list(MUTANTS) + [
    ("reader leaves [user] byte strings undecoded", H5,
     ('            if isinstance(h5attrs[key], bytes):',
      '            if isinstance(h5attrs[key], bytes) and not '
      'key.startswith("user:"):'), "R11.4"),
    ("2d array converter aliases its argument (np.asarray)", MP,
     ("    return np.array(value, dtype=np.float64)",
      "    return np.asarray(value, dtype=np.float64)"), "R11.5"),
    ("2d array converter without copy", MP,
     ("    return np.array(value, dtype=np.float64)",
      "    return np.array(value, dtype=np.float64, copy=False)"), "R11.5"),
    ("int list converter returns lists unchanged", MP,
     ("    outlist = []\n    if not isinstance(alist, (list, tuple)):",
      "    outlist = []\n    if isinstance(alist, list) and all(\n"
      "            isinstance(it, int) for it in alist):\n"
      "        return alist\n"
      "    if not isinstance(alist, (list, tuple)):"), "R11.5"),
    ("duration typed like its integer sibling row", MC,
     ('["target duration", float, "Target measurement duration [min]"]',
      '["target duration", fint, "Target measurement duration [min]"]'),
     "R11.2"),
    ("pixel coordinate typed as float", MC,
     ('["roi position x", fint,', '["roi position x", float,'), "R11.2"),
    ("event count typed as float", MC,
     ('["event count", fint, "Number of recorded events"]',
      '["event count", float, "Number of recorded events"]'), "R11.2"),
]
TWINS = list(TWINS) + [
    ("2d array converter with an explicit copy", MP,
     ("    return np.array(value, dtype=np.float64)",
      "    return np.array(value, dtype=np.float64, copy=True)")),
    ("2d array converter: asarray followed by copy()", MP,
     ("    return np.array(value, dtype=np.float64)",
      "    return np.asarray(value, dtype=np.float64).copy()")),
    ("reader decodes inside the filling loop (all sections)", H5,
     [('        for key in h5attrs:\n'
       '            if isinstance(h5attrs[key], bytes):\n'
       '                h5attrs[key] = h5attrs[key].decode("utf-8")\n\n',
       ''),
      ('            config[section][pname] = h5attrs[key]',
       '            value = h5attrs[key]\n'
       '            if isinstance(value, bytes):\n'
       '                value = value.decode("utf-8")\n'
       '            config[section][pname] = value')]),
    ("description reworded without changing the unit", MC,
     ('"Target measurement duration [min]"',
      '"Target duration of the measurement [min]"')),
]

# round-2 refactoring of Export.hdf5 (reduced): comprehension instead of
# the for/if loop, the two `if filtered:` blocks merged
TWINS = list(TWINS) + [
    ("export collects the metadata with a dict comprehension", EXP,
     [('        meta = {}\n'
       '        # only cfg metadata (no analysis metadata)\n'
       '        for sec in dfn.CFG_METADATA:\n'
       '            if sec in ds.config:\n'
       '                meta[sec] = ds.config[sec].copy()\n',
       '        meta = {sec: ds.config[sec].copy()\n'
       '                for sec in dfn.CFG_METADATA if sec in ds.config}\n'),
      ('            meta["experiment"]["run identifier"] = '
       'f"{ds_run_id}-{random_ap}"\n\n'
       '        if filtered:\n'
       '            filter_arr = ds.filter.all\n',
       '            meta["experiment"]["run identifier"] = '
       'f"{ds_run_id}-{random_ap}"\n'
       '            filter_arr = ds.filter.all\n')]),
]
MUTANTS = list(MUTANTS) + [
    ("export hands the sections over without a copy", EXP,
     ("                meta[sec] = ds.config[sec].copy()",
      "                meta[sec] = ds.config[sec]"), "R11.4"),
    ("export also copies the analysis sections", EXP,
     ("        for sec in dfn.CFG_METADATA:\n            if sec in ds.config:",
      "        for sec in dfn.config_keys:\n            if sec in ds.config:"),
     "R11.4"),
]

# round-2 refactoring (reduced): key/value split of load_from_file moved
# into a module-level helper that returns a namedtuple, defined below
TWINS = list(TWINS) + [
    ("file line split extracted into a helper returning a namedtuple", CONF,
     [("from collections import UserDict\n",
       "from collections import UserDict, namedtuple\n"),
      ("            var, val = line.split(\"=\", 1)\n"
       "            var = var.strip().lower()\n"
       "            val = val.strip(\"' \").strip('\" ').strip()\n"
       "            if len(val) == 0:",
       "            var, val = _split_keyval_line(line)\n"
       "            if len(val) == 0:"),
      ("def keyval_str2typ(var, val):",
       "_KeyValLine = namedtuple(\"_KeyValLine\", [\"var\", \"val\"])\n\n\n"
       "def _split_keyval_line(line):\n"
       "    var, val = line.split(\"=\", 1)\n"
       "    var = var.strip().lower()\n"
       "    val = val.strip(\"' \").strip('\" ').strip()\n"
       "    return _KeyValLine(var=var, val=val)\n\n\n"
       "def keyval_str2typ(var, val):")]),
]
MUTANTS = list(MUTANTS) + [
    ("helper for the file line split forgets to lower-case", CONF,
     [("            var, val = line.split(\"=\", 1)\n"
       "            var = var.strip().lower()\n"
       "            val = val.strip(\"' \").strip('\" ').strip()\n"
       "            if len(val) == 0:",
       "            var, val = _split_keyval_line(line)\n"
       "            if len(val) == 0:"),
      ("def keyval_str2typ(var, val):",
       "def _split_keyval_line(line):\n"
       "    var, val = line.split(\"=\", 1)\n"
       "    return var.strip(), val.strip(\"' \").strip('\" ').strip()\n\n\n"
       "def keyval_str2typ(var, val):")], "R11.4"),
]

# round-3 seeded change
MUTANTS = list(MUTANTS) + [
    ("channel-count guard tests the file instead of its attributes", WR,
     ('            if "fluorescence:channel count" not in self.h5file.attrs:',
      '            if "fluorescence:channel count" not in self.h5file:'),
     "R11.4"),
    ("channel-count guard tests another key", WR,
     ('            if "fluorescence:channel count" not in self.h5file.attrs:',
      '            if "fluorescence:channels installed" not in '
      'self.h5file.attrs:'), "R11.4"),
    ("event count only filled in when missing", WR,
     ('            self.h5file.attrs["experiment:event count"] = len(feat0)',
      '            self.h5file.attrs.setdefault("experiment:event count",\n'
      '                                         len(feat0))'), "R11.4"),
]
TWINS = list(TWINS) + [
    ("channel-count guard via attrs.get", WR,
     ('            if "fluorescence:channel count" not in self.h5file.attrs:',
      '            if self.h5file.attrs.get("fluorescence:channel count") '
      'is None:')),
]

# round-3 refactorings (reduced)
TWINS = list(TWINS) + [
    ("update loops moved into a private helper", CONF,
     ("        for key in E:\n            self.__setitem__(key, E[key])\n"
      "        for key in F:\n            self.__setitem__(key, F[key])\n",
      "        self._set_items_from(E)\n        self._set_items_from(F)\n\n"
      "    def _set_items_from(self, mapping):\n"
      "        for key in mapping:\n"
      "            self.__setitem__(key, mapping[key])\n")),
    ("update delegates to the MutableMapping mixin", CONF,
     ("        for key in E:\n            self.__setitem__(key, E[key])\n"
      "        for key in F:\n            self.__setitem__(key, F[key])\n",
      "        super(ConfigurationDict, self).update(E, **F)\n")),
    ("table lookup with an assignment expression", ML,
     [("    elif meta_const.config_funcs.get(section, {}).get(key, False):\n"
       "        func = meta_const.config_funcs[section][key]\n",
       "    elif (table_func := meta_const.config_funcs.get(section, {})"
       ".get(key)):\n        func = table_func\n"),
      ("    elif meta_const.config_types.get(section, {}).get(key, False):\n"
       "        typ = meta_const.config_types[section][key]\n",
       "    elif (table_typ := meta_const.config_types.get(section, {})"
       ".get(key)):\n        typ = table_typ\n")]),
]
MUTANTS = list(MUTANTS) + [
    ("update helper only called for the positional mapping", CONF,
     ("        for key in E:\n            self.__setitem__(key, E[key])\n"
      "        for key in F:\n            self.__setitem__(key, F[key])\n",
      "        self._set_items_from(E)\n\n"
      "    def _set_items_from(self, mapping):\n"
      "        for key in mapping:\n"
      "            self.__setitem__(key, mapping[key])\n"), "R11.1"),
    ("update helper stores the key as value", CONF,
     ("        for key in E:\n            self.__setitem__(key, E[key])\n",
      "        for key in E:\n            self.__setitem__(key, key)\n"),
     "R11.1"),
    ("type lookup with walrus from the converter table", ML,
     ("    elif meta_const.config_types.get(section, {}).get(key, False):\n"
      "        typ = meta_const.config_types[section][key]\n",
      "    elif (table_typ := meta_const.config_funcs.get(section, {})"
      ".get(key)):\n        typ = table_typ\n"), "R11.2"),
]

# round-4 refactoring (reduced): store_metadata split at the
# validation / writing seam
TWINS = list(TWINS) + [
    ("writer: branding and attribute loop in a private method", WR,
     ("        # update version\n        old_version = meta.get(",
      "        self._store_checked_metadata(meta)\n\n"
      "    def _store_checked_metadata(self, meta):\n"
      "        # update version\n        old_version = meta.get(")),
]
MUTANTS = list(MUTANTS) + [
    ("writer: attributes written before the metadata are validated", WR,
     [("        # Check meta data\n        for sec in meta:\n",
       "        self._store_checked_metadata(meta)\n"
       "        # Check meta data\n        for sec in meta:\n"),
      ("        # update version\n        old_version = meta.get(",
       "        return\n\n"
       "    def _store_checked_metadata(self, meta):\n"
       "        # update version\n        old_version = meta.get(")],
     "R11.4"),
]

# keeps its footing: an argument-free instance attribute set in __init__ and
# updated in __setitem__ (not a C11 matter)
TWINS = list(TWINS) + [
    ("ConfigurationDict counts its modifications", CONF,
     [("        self.section = section\n"
       "        super(ConfigurationDict, self).__init__(*args, **kwargs)\n",
       "        self.section = section\n        self.revision = 0\n"
       "        super(ConfigurationDict, self).__init__(*args, **kwargs)\n"),
      ("            super(ConfigurationDict, self).__setitem__(key, value)\n",
       "            super(ConfigurationDict, self).__setitem__(key, value)\n"
       "            self.revision += 1\n")]),
]

# round-4 seeded changes
MUTANTS = list(MUTANTS) + [
    ("pattern keys memoised in a module-level dict", ML,
     [("def config_key_exists(section, key):",
       "_online_filter_keys = {}\n\n\ndef config_key_exists(section, key):"),
      ('    elif section == "online_filter":\n        if (key.count(",")',
       '    elif section == "online_filter":\n'
       '        if key in _online_filter_keys:\n'
       '            return _online_filter_keys[key]\n'
       '        if (key.count(",")', 0),
      ("            valid = feat_logic.scalar_feature_exists(feat)\n"
       "    return valid",
       "            valid = feat_logic.scalar_feature_exists(feat)\n"
       "        _online_filter_keys[key] = valid\n    return valid")],
     "R11.2"),
    ("key predicate memoised with lru_cache", ML,
     [("import numbers\n", "import functools\nimport numbers\n"),
      ("def config_key_exists(section, key):",
       "@functools.lru_cache(maxsize=None)\n"
       "def config_key_exists(section, key):")], "R11.2"),
    ("hierarchy child configuration through as_dict()", HIER,
     ("        cfg = self.hparent.config.copy()",
      "        cfg = self.hparent.config.as_dict()"), "R11.4"),
    ("hierarchy child shares the parent's configuration", HIER,
     ("        cfg = self.hparent.config.copy()",
      "        cfg = self.hparent.config"), "R11.4"),
    ("export fills the raw dict of a ConfigurationDict", EXP,
     [("from .feat_basin import get_basin_classes\n",
       "from .config import ConfigurationDict\n"
       "from .feat_basin import get_basin_classes\n"),
      ("                meta[sec] = ds.config[sec].copy()",
       "                meta[sec] = ConfigurationDict(section=sec)\n"
       "                meta[sec].data.update(ds.config[sec])")], "R11"),
    ("writer trusts section-aware dictionaries", WR,
     [("        for sec in meta:\n            for ck in meta[sec]:\n"
       "                idk = f\"{sec}:{ck}\"",
       "        for sec in meta:\n"
       "            converted = getattr(meta[sec], \"section\", None) == "
       "sec\n            for ck in meta[sec]:\n"
       "                idk = f\"{sec}:{ck}\""),
      ("                if sec == \"user\":\n"
       "                    # store user-defined metadata as-is",
       "                if sec == \"user\" or converted:\n"
       "                    # store user-defined metadata as-is")],
     "R11.4"),
]
TWINS = list(TWINS) + [
    ("hierarchy child configuration through deepcopy", HIER,
     [("        cfg = self.hparent.config.copy()",
       "        cfg = copy.deepcopy(self.hparent.config.copy())"),
      ("import numpy as np\n", "import copy\n\nimport numpy as np\n")]),
    ("key predicate with a local (per call) cache dict", ML,
     ('    valid = False\n    if section == "user":\n'
      '        if isinstance(key, str) and key.strip():  # sanity check',
      '    valid = False\n    seen = {}\n    seen[key] = section\n'
      '    if section == "user":\n'
      '        if isinstance(key, str) and key.strip():  # sanity check')),
]

# round-5 refactoring (reduced): the optionally owned file of parse_config
# handled by a contextlib.ExitStack
TWINS = list(TWINS) + [
    ("reader: optionally owned file through an ExitStack", H5,
     [("import io\n", "import contextlib\nimport io\n"),
      ("        if not isinstance(h5path, h5py.File):\n"
       "            with h5py.File(h5path, mode=\"r\") as fh5:\n"
       "                h5attrs = dict(fh5.attrs)\n"
       "        else:\n"
       "            h5attrs = dict(h5path.attrs)\n",
       "        with contextlib.ExitStack() as stack:\n"
       "            if isinstance(h5path, h5py.File):\n"
       "                fh5 = h5path\n"
       "            else:\n"
       "                fh5 = stack.enter_context(h5py.File(h5path, "
       "mode=\"r\"))\n"
       "            h5attrs = dict(fh5.attrs)\n")]),
    ("reader: optionally owned file through nullcontext", H5,
     [("import io\n", "import contextlib\nimport io\n"),
      ("        if not isinstance(h5path, h5py.File):\n"
       "            with h5py.File(h5path, mode=\"r\") as fh5:\n"
       "                h5attrs = dict(fh5.attrs)\n"
       "        else:\n"
       "            h5attrs = dict(h5path.attrs)\n",
       "        if isinstance(h5path, h5py.File):\n"
       "            ctx = contextlib.nullcontext(h5path)\n"
       "        else:\n"
       "            ctx = h5py.File(h5path, mode=\"r\")\n"
       "        with ctx as fh5:\n"
       "            h5attrs = dict(fh5.attrs)\n")]),
]

# round-5 seeded changes (value-level slips)
FLG = "dclab/definitions/feat_logic.py"
MUTANTS = list(MUTANTS) + [
    ("duple guard lets zero-dimensional inputs through", MP,
     ("    if np.array(value).ndim != 1:", "    if np.array(value).ndim > 1:"),
     "R11.5"),
    ("duple takes the first two of a longer sequence", MP,
     ("    value = tuple(float(i) for i in value)\n"
      "    if len(value) != 2:",
      "    value = tuple(float(i) for i in value)[:2]\n"
      "    if len(value) != 2:"), "R11.5"),
    ("last character of ml_score names unchecked", FLG,
     ("            and name[-3] in valid_chars\n"
      "            and name[-2] in valid_chars\n"
      "                and name[-1] in valid_chars):",
      "                and all(ch in valid_chars for ch in name[-3:-1])):"),
     "R11.2"),
    ("ml_score names with upper-case characters", FLG,
     ('        valid_chars = "0123456789abcdefghijklmnopqrstuvwxyz"',
      '        valid_chars = "0123456789abcdefghijklmnopqrstuvwxyz"\n'
      '        name = name.lower()'), "R11.2"),
]
TWINS = list(TWINS) + [
    ("ml_score characters checked with all() over the last three", FLG,
     ("            and name[-3] in valid_chars\n"
      "            and name[-2] in valid_chars\n"
      "                and name[-1] in valid_chars):",
      "                and all(ch in valid_chars for ch in name[-3:])):")),
    ("duple guard written as two tests", MP,
     ("    if np.array(value).ndim != 1:",
      "    if np.array(value).ndim < 1 or np.array(value).ndim > 1:")),
]

# round-6 refactoring (reduced): attribute loop of store_metadata as a
# module-level generator (the other round-6 diffs are replayed from
# campaign/refactorings_round6 by the thorough tier)
TWINS = list(TWINS) + [
    ("writer: attribute names and values from a module-level generator", WR,
     [("        for sec in meta:\n            for ck in meta[sec]:\n"
       "                idk = f\"{sec}:{ck}\"\n"
       "                value = meta[sec][ck]\n",
       "        for idk, value in _iter_metadata_attributes(meta):\n"
       "            self.h5file.attrs[idk] = value\n"
       "        return\n"
       "        for sec in meta:\n            for ck in meta[sec]:\n"
       "                idk = f\"{sec}:{ck}\"\n"
       "                value = meta[sec][ck]\n"),
      ("class RTDCWriter:\n",
       "def _iter_metadata_attributes(meta):\n"
       "    for sec in meta:\n"
       "        for ck in meta[sec]:\n"
       "            value = meta[sec][ck]\n"
       "            if isinstance(value, bytes):\n"
       "                value = value.decode(\"utf-8\")\n"
       "            if sec != \"user\":\n"
       "                value = dfn.get_config_value_func(sec, ck)(value)\n"
       "            yield f\"{sec}:{ck}\", value\n\n\n"
       "class RTDCWriter:\n")]),
]
MUTANTS = list(MUTANTS) + [
    ("writer generator forgets the converter", WR,
     [("        for sec in meta:\n            for ck in meta[sec]:\n"
       "                idk = f\"{sec}:{ck}\"\n"
       "                value = meta[sec][ck]\n",
       "        for idk, value in _iter_metadata_attributes(meta):\n"
       "            self.h5file.attrs[idk] = value\n"
       "        return\n"
       "        for sec in meta:\n            for ck in meta[sec]:\n"
       "                idk = f\"{sec}:{ck}\"\n"
       "                value = meta[sec][ck]\n"),
      ("class RTDCWriter:\n",
       "def _iter_metadata_attributes(meta):\n"
       "    for sec in meta:\n"
       "        for ck in meta[sec]:\n"
       "            value = meta[sec][ck]\n"
       "            if isinstance(value, bytes):\n"
       "                value = value.decode(\"utf-8\")\n"
       "            yield f\"{sec}:{ck}\", value\n\n\n"
       "class RTDCWriter:\n")], "R11.4"),
]

# round-6 seeded changes
MUTANTS = list(MUTANTS) + [
    ("file values of known keys get a decimal-comma replacement", CONF,
     ("                convfunc = dfn.get_config_value_func(sec, var)\n"
      "                val = convfunc(val)\n",
      "                convfunc = dfn.get_config_value_func(sec, var)\n"
      "                if not val.startswith(\"[\"):\n"
      "                    val = val.replace(\",\", \".\")\n"
      "                val = convfunc(val)\n"), "R11.4"),
    ("hierarchy child section replaced by a plain dict", HIER,
     ('            self.config["calculation"].clear()\n'
      '            self.config["calculation"].update(\n'
      '                self.hparent.config["calculation"])',
      '            self.config["calculation"] = dict(\n'
      '                self.hparent.config["calculation"])'), "R11.4"),
    ("hierarchy child keeps stale calculation entries", HIER,
     ('            self.config["calculation"].clear()\n', ""), "R11.4"),
]

# round-7 seeded changes (object lifecycle: what a copy shares)
_COPY_OLD = "        return Configuration(cfg=copy.deepcopy(self._cfg))"
MUTANTS = list(MUTANTS) + [
    ("Configuration.copy hands its own sections to the new object", CONF,
     (_COPY_OLD, "        return Configuration(cfg=self._cfg)"), "R11.6"),
    ("Configuration.copy through a shallow copy", CONF,
     (_COPY_OLD, "        return Configuration(cfg=copy.copy(self._cfg))"),
     "R11.6"),
    ("Configuration.copy copies the sections, not their values", CONF,
     (_COPY_OLD,
      "        return Configuration(\n"
      "            cfg={s: dict(self._cfg[s]) for s in self._cfg})"),
     "R11.6"),
    ("Configuration.copy returns the configuration itself", CONF,
     (_COPY_OLD, "        return self"), "R11.6"),
    ("store_metadata works on a shallow copy of the caller's metadata", WR,
     ("        meta = copy.deepcopy(meta)\n",
      "        meta = copy.copy(meta)\n"), "R11.4"),
]
TWINS = list(TWINS) + [
    ("Configuration.copy: deep copy bound to a local first", CONF,
     (_COPY_OLD,
      "        cfg = copy.deepcopy(self._cfg)\n"
      "        return Configuration(cfg=cfg)")),
    ("Configuration.copy: empty object updated with a deep copy", CONF,
     (_COPY_OLD,
      "        new = Configuration()\n"
      "        new.update(copy.deepcopy(dict(self._cfg)))\n"
      "        return new")),
    ("Configuration.copy: deep copy per section", CONF,
     (_COPY_OLD,
      "        return Configuration(cfg={\n"
      "            sec: copy.deepcopy(self[sec]) for sec in self.keys()})")),
    ("store_metadata: deep copy per section", WR,
     ("        meta = copy.deepcopy(meta)\n",
      "        meta = {sec: copy.deepcopy(meta[sec]) for sec in meta}\n")),
]
