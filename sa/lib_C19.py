"""Finite-model evaluation of dclab's range-cached file objects (C19).

The classes ``HTTPFile`` (http_utils.py) and ``S3File`` (fmt_s3.py) are loaded
from their *syntax trees* into the analyser's interpreter (:mod:`sa.lib_C04`)
and evaluated on every member of a small family of models: a resource of
``L`` bytes behind a model session that answers range requests, chunk size
``c``, cache capacity ``k``.  Nothing of dclab is imported or executed; an
external name that is not modelled here is an ``AnalysisError``.

The model server is deliberately *strict about requests*: it records every
``Range`` header and answers an invalid or unsatisfiable range (first > last,
first >= L) the way RFC 7233 servers do – by ignoring it and sending the
whole resource – so that a request that should never have been made shows up
both in the request log and (usually) in the bytes.
"""
from __future__ import annotations

from . import lib_C04 as L
from .core import AnalysisError

HU = "dclab/http_utils.py"
S3 = "dclab/rtdc_dataset/fmt_s3.py"


class _Headers(dict):
    """case-insensitive response headers (requests' CaseInsensitiveDict)"""

    def __init__(self, d):
        super().__init__({k.lower(): v for k, v in d.items()})

    def __getitem__(self, k):
        return super().__getitem__(k.lower())

    def get(self, k, default=None):
        return super().get(k.lower(), default)

    def __contains__(self, k):
        return super().__contains__(k.lower())


STRONG_ETAG = '"0123456789abcdef"'
WEAK_ETAG = 'W/"0123456789abcdef"'


class Resp:
    def __init__(self, content, total, url, etag=STRONG_ETAG, status=200):
        self.content = content
        self.ok = status < 400
        self.status_code = status
        self.reason = {200: "OK", 206: "Partial Content"}.get(
            status, "Precondition Failed")
        self.url = url
        h = {"content-length": str(total)}
        if etag is not None:
            h["etag"] = etag
        self.headers = _Headers(h)

    def raise_for_status(self):
        if not self.ok:
            raise L.ModelFault("HTTPError", f"{self.status_code}", None)


class Session:
    """model of a requests session serving one resource"""

    def __init__(self, resource, url, etag=STRONG_ETAG, outage=0):
        self.res = resource
        self.url = url
        #: further resources of the same host (one session per host)
        self.more = {}
        #: default headers of the session, sent with every request
        self.headers = {}
        #: number of initial requests answered with an error page (503)
        self.outage = outage
        self.etag = etag       # validator the server labels the resource with
        self.log = []          # (first, last) of every range request
        self.bad = []          # invalid / unsatisfiable range requests
        self.if_range_failed = []
        self.other_url = []

    def _full(self, url):
        return Resp(self.res, len(self.res), url, self.etag)

    def get(self, url, headers=None, stream=False, timeout=None, **kw):
        if url in self.more:
            # another resource of this host: same session object, hence
            # the same default headers
            sub = self.more[url]
            sub.headers = self.headers
            merged = dict(headers or {})
            return sub.get(url, headers=merged, stream=stream,
                           timeout=timeout, **kw)
        if url != self.url:
            self.other_url.append(url)
        eff = dict(self.headers)
        eff.update(headers or {})
        hd = {str(k).lower(): v for k, v in eff.items()}
        if self.outage > 0:
            self.outage -= 1
            page = b"<html>503 Service Unavailable, try again</html>"
            r503 = Resp(page, len(page), url, None, status=503)
            r503.reason = "Service Unavailable"
            return r503
        rng = hd.get("range")
        # preconditions (RFC 9110 section 13)
        im = hd.get("if-match")
        if im is not None and im.strip() != "*" and not (
                self.etag and not self.etag.startswith("W/")
                and self.etag in [x.strip() for x in im.split(",")]):
            return Resp(b"", len(self.res), url, self.etag, status=412)
        if rng is None:
            return self._full(url)
        if not (isinstance(rng, str) and rng.startswith("bytes=")
                and rng.count("-") >= 1):
            self.bad.append(rng)
            return self._full(url)
        a, _, b = rng[6:].partition("-")
        try:
            a, b = int(a), int(b)
        except ValueError:
            self.bad.append(rng)
            return self._full(url)
        self.log.append((a, b))
        if b < a or a >= len(self.res) or a < 0:
            self.bad.append(rng)
            return self._full(url)
        ir = hd.get("if-range")
        if ir is not None:
            # strong comparison: a weak validator never matches, and a
            # failed If-Range makes the server ignore the Range header
            if not (self.etag and not self.etag.startswith("W/")
                    and not str(ir).startswith("W/") and ir == self.etag):
                self.if_range_failed.append(ir)
                return self._full(url)
        return Resp(self.res[a:b + 1], len(self.res), url, self.etag,
                    status=206)

    def close(self):
        pass


def _externals(sessions):
    ident = lambda f: f     # noqa: E731
    from .lib_common import extras
    return {
        **extras(L),
        "io": L.namespace("io", IOBase=L.PyBase(
            "IOBase", {"close": lambda o, *a, **k: None})),
        "os": L.namespace("os", SEEK_SET=0, SEEK_CUR=1, SEEK_END=2),
        "np": L.namespace("np", int64=int, uint64=int, int32=int,
                          ceil=lambda x: -(-x // 1)),
        "session_cache": L.namespace(
            "session_cache", get_session=lambda url: sessions[url]),
        "warnings": L.namespace("warnings", warn=lambda *a, **k: None),
        "functools": L.namespace(
            "functools", lru_cache=lambda *a, **k: (
                a[0] if a and callable(a[0]) else ident),
            partial=lambda f, *a, **k: (
                lambda *a2, **k2: f(*a, *a2, **{**k, **k2}))),
        "collections": L.namespace(
            "collections", namedtuple=_namedtuple, OrderedDict=dict),
    }


def _namedtuple(name, fields, **kw):
    import collections
    return collections.namedtuple(name, fields)


class Model:
    """one HTTPFile instance on one resource"""

    def __init__(self, repo, resource, chunk_size, keep_chunks,
                 url="http://host/res", etag=STRONG_ETAG, outage=0):
        self.it = L.Interp(repo)
        self.session = Session(resource, url, etag, outage)
        self._sessions = {url: self.session}
        self.env = self.it.env(HU, _externals(self._sessions))
        cls = self.env.lookup("HTTPFile")
        r = L.run(lambda: cls(url, chunk_size=chunk_size,
                              keep_chunks=keep_chunks))
        if r[0] != "ok":
            raise AnalysisError(f"HTTPFile(...) cannot be evaluated: {r}")
        self.obj = r[1]
        self.cls = cls

    def call(self, name, *a, **k):
        return L.run(lambda: L.lookup_attr(self.it, self.obj, name, None)(
            *a, **k))

    def attr(self, name):
        r = L.run(lambda: L.lookup_attr(self.it, self.obj, name, None))
        return r

    @property
    def cache(self):
        r = self.attr("cache")     # instance or class attribute
        if r[0] != "ok" or not isinstance(r[1], dict):
            raise AnalysisError("HTTPFile.cache is not a dict in the model")
        return r[1]

    def second(self, resource, chunk_size, keep_chunks,
               url="http://host/other"):
        """another file object of the *same* class (shares class-level
        state with this one) on another resource"""
        other = Model.__new__(Model)
        other.it, other.env, other.cls = self.it, self.env, self.cls
        other.session = Session(resource, url)
        if url.split("/")[2] == self.session.url.split("/")[2]:
            # same host: requests' session (and its default headers) is
            # shared, as session_cache does per netloc
            self.session.more[url] = other.session
            self._sessions[url] = self.session
        else:
            self._sessions[url] = other.session
        r = L.run(lambda: self.cls(url, chunk_size=chunk_size,
                                   keep_chunks=keep_chunks))
        if r[0] != "ok":
            raise AnalysisError(f"HTTPFile(...) cannot be evaluated: {r}")
        other.obj = r[1]
        other._sessions = self._sessions
        return other

    def again(self, chunk_size, keep_chunks):
        """a new file object of the same class on the *same* URL, created
        later in the same process (module- and class-level state of the
        first one is still there; the session is the one of the host)"""
        other = Model.__new__(Model)
        other.it, other.env, other.cls = self.it, self.env, self.cls
        other.session = self.session
        other._sessions = self._sessions
        url = self.session.url
        r = L.run(lambda: self.cls(url, chunk_size=chunk_size,
                                   keep_chunks=keep_chunks))
        if r[0] != "ok":
            raise AnalysisError(f"HTTPFile(...) cannot be evaluated: {r}")
        other.obj = r[1]
        return other
