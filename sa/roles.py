"""Flow-insensitive role propagation for path-like values inside one function
(used by C10 / C08: which variables denote the task's input, its final output
or its temporary file).

A role is a string; `seed` maps variable names to sets of roles.  Roles flow
through aliases, subscripts, iteration (incl. ``zip`` / ``enumerate``
position-wise), ``pathlib.Path(x)``, ``str(x)``, ``x / name``,
``x.with_suffix/with_name/resolve/absolute``, list displays, comprehensions,
``lst.append(x)``, and through the handle constructors listed in
`HANDLE_CALLS` (``h5py.File(p)``, ``new_dataset(p)``, ``RTDCWriter(p)``).
Attributes that yield names or directories (``.stem``, ``.name``, ``.suffix``,
``.parent``) drop the role.  ``.with_suffix(<const ending in '~'>)`` turns
OUT into TEMP.
"""
from __future__ import annotations

import ast

from .core import call_name, const_str, dotted, last_attr, walk

PATH_METHODS = {"with_suffix", "with_name", "with_stem", "resolve",
                "absolute", "expanduser"}
DROP_ATTRS = {"stem", "name", "suffix", "parent", "suffixes", "parents"}
WRAP_CALLS = {"pathlib.Path", "Path", "str", "list", "sorted", "tuple",
              "reversed", "pathlib.PurePath", "os.fspath"}
HANDLE_CALLS = {"h5py.File", "new_dataset", "RTDCWriter", "load.new_dataset"}


def _ends_with_tilde(e):
    """the string expression certainly ends in '~'"""
    s = const_str(e)
    if s is not None:
        return s.endswith("~")
    if isinstance(e, ast.BinOp) and isinstance(e.op, ast.Add):
        return _ends_with_tilde(e.right)
    if isinstance(e, ast.JoinedStr) and e.values:
        return _ends_with_tilde(e.values[-1])
    return False


class Roles:
    def __init__(self, func, seed, tuple_calls=None, tuple_fields=None,
                 call_roles=None):
        """`tuple_calls`: {callee dotted name: (role, role, ...)} for calls
        whose result tuple is unpacked position-wise; `tuple_fields`:
        {callee dotted name: [field names]} when that result is a named
        tuple read by field name; `call_roles(call, roles)`: roles of the
        value an otherwise unknown call returns (summary of a helper)"""
        self.func = func
        self.roles = {k: set(v) for k, v in seed.items()}
        self.tuple_calls = tuple_calls or {}
        self.tuple_fields = tuple_fields or {}
        self.call_roles = call_roles
        #: name -> (roles per position, field names or None): a whole
        #: result tuple bound to one name
        self.struct = {}
        # name -> list of role sets: a collection of k-tuples whose
        # positions carry different roles (``pairs.append((pt, pp))``)
        self.elem_roles = {}
        self._fix()

    def of(self, expr):
        r = self.roles
        if expr is None:
            return set()
        if isinstance(expr, ast.Name):
            return set(r.get(expr.id, ()))
        if isinstance(expr, ast.Subscript):
            if isinstance(expr.value, ast.Name) \
                    and expr.value.id in self.struct:
                pos, _f = self.struct[expr.value.id]
                i = expr.slice.value if isinstance(
                    expr.slice, ast.Constant) else None
                if isinstance(i, int) and -len(pos) <= i < len(pos):
                    return {pos[i]} if pos[i] else set()
                return set()
            return self.of(expr.value)
        if isinstance(expr, ast.Starred):
            return self.of(expr.value)
        if isinstance(expr, ast.Attribute):
            if isinstance(expr.value, ast.Name) \
                    and expr.value.id in self.struct:
                pos, fields = self.struct[expr.value.id]
                if fields and expr.attr in fields:
                    r_ = pos[fields.index(expr.attr)]
                    return {r_} if r_ else set()
                return set()
            if expr.attr in DROP_ATTRS:
                return set()
            return set()
        if isinstance(expr, ast.BinOp) and isinstance(expr.op, ast.Div):
            return self.of(expr.left)
        if isinstance(expr, ast.BinOp) and isinstance(expr.op, ast.Add):
            return self.of(expr.left) | self.of(expr.right)
        if isinstance(expr, (ast.List, ast.Tuple, ast.Set)):
            out = set()
            for e in expr.elts:
                out |= self.of(e)
            return out
        if isinstance(expr, ast.IfExp):
            return self.of(expr.body) | self.of(expr.orelse)
        if isinstance(expr, (ast.ListComp, ast.GeneratorExp, ast.SetComp)):
            return self.of(expr.elt)
        if isinstance(expr, ast.Call):
            name = call_name(expr)
            if name in WRAP_CALLS or name in HANDLE_CALLS:
                if expr.args:
                    return self.of(expr.args[0])
                for kw in expr.keywords:
                    if kw.arg in ("path", "path_or_h5file", "name"):
                        return self.of(kw.value)
                return set()
            if isinstance(expr.func, ast.Attribute) \
                    and expr.func.attr in PATH_METHODS:
                base = self.of(expr.func.value)
                if expr.func.attr in ("with_suffix", "with_name") \
                        and expr.args and _ends_with_tilde(expr.args[0]):
                    base = {"TEMP" if x == "OUT" else x for x in base}
                return base
            if self.call_roles is not None:
                r_ = self.call_roles(expr, self)
                if r_:
                    return set(r_)
            return set()
        return set()

    def _bind(self, target, value_roles):
        changed = False
        if isinstance(target, ast.Name):
            cur = self.roles.setdefault(target.id, set())
            if not value_roles <= cur:
                cur |= value_roles
                changed = True
        elif isinstance(target, (ast.Tuple, ast.List)):
            for t in target.elts:
                changed |= self._bind(t, value_roles)
        elif isinstance(target, ast.Subscript):
            # lst[i] = x
            changed |= self._bind(target.value, value_roles)
        elif isinstance(target, ast.Starred):
            changed |= self._bind(target.value, value_roles)
        return changed

    def _bind_iter(self, target, it):
        """for target in it"""
        if isinstance(it, ast.Call) and call_name(it) == "zip" \
                and isinstance(target, (ast.Tuple, ast.List)) \
                and len(target.elts) == len(it.args):
            ch = False
            for t, a in zip(target.elts, it.args):
                ch |= self._bind(t, self.of(a))
            return ch
        if isinstance(it, ast.Call) and (call_name(it) or "").split(".")[-1] \
                == "product" and isinstance(target, (ast.Tuple, ast.List)) \
                and len(target.elts) == len(it.args) and not it.keywords:
            ch = False
            for t, a in zip(target.elts, it.args):
                ch |= self._bind(t, self.of(a))
            return ch
        if isinstance(it, ast.Call) and call_name(it) == "enumerate" \
                and isinstance(target, (ast.Tuple, ast.List)) \
                and len(target.elts) == 2 and it.args:
            return self._bind_iter(target.elts[1], it.args[0])
        if isinstance(it, ast.Call) and call_name(it) in (
                "list", "tuple", "reversed", "iter", "sorted") \
                and len(it.args) == 1:
            return self._bind_iter(target, it.args[0])
        if isinstance(it, ast.Name) and it.id in self.elem_roles \
                and isinstance(target, (ast.Tuple, ast.List)) \
                and len(target.elts) == len(self.elem_roles[it.id]):
            ch = False
            for t, rs in zip(target.elts, self.elem_roles[it.id]):
                ch |= self._bind(t, set(rs))
            return ch
        return self._bind(target, self.of(it))

    def _note_elem(self, name, tup):
        """`name` collects the tuple `tup`: remember roles per position"""
        rs = [self.of(e) for e in tup.elts]
        cur = self.elem_roles.get(name)
        if cur is None:
            self.elem_roles[name] = rs
            return any(rs)
        if len(cur) != len(rs):
            # mixed arity: positions are meaningless, fall back to the union
            self.elem_roles[name] = [set().union(*cur, *rs)] * 0
            return False
        ch = False
        for c, r in zip(cur, rs):
            if not r <= c:
                c |= r
                ch = True
        return ch

    def _fix(self):
        for _ in range(20):
            changed = False
            for n in walk(self.func):
                if isinstance(n, ast.Assign):
                    v = n.value
                    name = call_name(v) if isinstance(v, ast.Call) else None
                    for t in n.targets:
                        if name in self.tuple_calls and isinstance(
                                t, ast.Name):
                            # the whole result bound to one name
                            if t.id not in self.struct:
                                self.struct[t.id] = (
                                    tuple(self.tuple_calls[name]),
                                    self.tuple_fields.get(name))
                                changed = True
                            continue
                        if name in self.tuple_calls and isinstance(
                                t, (ast.Tuple, ast.List)):
                            for el, role in zip(t.elts,
                                                self.tuple_calls[name]):
                                if role:
                                    changed |= self._bind(el, {role})
                        elif isinstance(t, (ast.Tuple, ast.List)) \
                                and isinstance(v, (ast.Tuple, ast.List)) \
                                and len(t.elts) == len(v.elts):
                            for a, b in zip(t.elts, v.elts):
                                changed |= self._bind(a, self.of(b))
                        else:
                            changed |= self._bind(t, self.of(v))
                elif isinstance(n, ast.AnnAssign) and n.value is not None:
                    changed |= self._bind(n.target, self.of(n.value))
                elif isinstance(n, (ast.For, ast.AsyncFor)):
                    changed |= self._bind_iter(n.target, n.iter)
                elif isinstance(n, ast.comprehension):
                    changed |= self._bind_iter(n.target, n.iter)
                elif isinstance(n, (ast.With, ast.AsyncWith)):
                    for item in n.items:
                        if item.optional_vars is not None:
                            changed |= self._bind(
                                item.optional_vars,
                                self.of(item.context_expr))
                elif isinstance(n, ast.NamedExpr):
                    changed |= self._bind(n.target, self.of(n.value))
                elif isinstance(n, ast.Call) and last_attr(n) in (
                        "append", "add", "extend", "insert") \
                        and isinstance(n.func, ast.Attribute):
                    for a in n.args:
                        changed |= self._bind(n.func.value, self.of(a))
                    if last_attr(n) in ("append", "add") and n.args \
                            and isinstance(n.args[-1], ast.Tuple) \
                            and isinstance(n.func.value, ast.Name):
                        changed |= self._note_elem(n.func.value.id,
                                                   n.args[-1])
            if not changed:
                return
