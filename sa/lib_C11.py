"""Evaluator for the small pure functions and table-building module code of
``dclab/definitions/meta_*.py`` and ``rtdc_dataset/config.py`` over *model
values* (used by rules C11).

Nothing of the repository is imported or executed: the syntax trees are
interpreted here.  Builtin Python values stand for themselves; the numpy
scalar/array types are modelled by the stand-in classes below, which carry
exactly the facts of the numpy type hierarchy the converters' dispatch
depends on:

* ``np.float64`` is a subclass of ``float``            -> ``NpFloat(float)``
* ``np.bool_`` is neither ``bool`` nor ``int`` nor a ``numbers.Number``
                                                        -> ``NpBool``
* ``np.int64`` is not an ``int`` but a ``numbers.Integral`` -> ``NpInt``
* ``np.ndarray``: iteration yields numpy scalars / sub-arrays, truth value
  and ``float()`` of arrays with more than one element raise, no string
  methods                                               -> ``NdArray``

Any construct outside the supported subset raises AnalysisError (fail
closed).  `crossval` of C11 compares the outcomes of this model with the real
functions on the same representatives.
"""
from __future__ import annotations

import ast
import numbers
import operator

from .core import AnalysisError, txt


class ModelRaise(Exception):
    """the interpreted code raises (name of the exception class)"""

    def __init__(self, name, detail="", args=None):
        super().__init__(f"{name}: {detail}")
        self.name = name
        self.detail = detail
        #: the `args` of the modelled exception object
        self.model_args = (detail,) if args is None else tuple(args)


# ----------------------------------------------------------------------
# numpy stand-ins

class NpBool:
    def __init__(self, v):
        self.v = bool(v)

    def __bool__(self):
        return self.v

    def __float__(self):
        return float(self.v)

    def __int__(self):
        return int(self.v)

    def __eq__(self, o):
        if isinstance(o, NdArray):
            return NotImplemented
        if isinstance(o, (str, bytes, list, tuple, dict)) or o is None:
            return NpBool(False)
        return NpBool(float(self.v) == float(o))

    def __ne__(self, o):
        r = self.__eq__(o)
        if r is NotImplemented:
            return r
        return NpBool(not r)

    def __hash__(self):
        return hash(self.v)

    def __repr__(self):
        return f"np.bool_({self.v})"

    def __str__(self):
        return str(self.v)


class NpInt:
    def __init__(self, v):
        self.v = int(v)

    def __bool__(self):
        return bool(self.v)

    def __float__(self):
        return float(self.v)

    def __int__(self):
        return self.v

    def __index__(self):
        return self.v

    def _cmp(self, o, op):
        if isinstance(o, NdArray):
            return NotImplemented
        if isinstance(o, (str, bytes, list, tuple, dict)) or o is None:
            if op is operator.eq:
                return NpBool(False)
            if op is operator.ne:
                return NpBool(True)
            raise TypeError("unorderable")
        return NpBool(op(float(self.v), float(o)))

    def __eq__(self, o):
        return self._cmp(o, operator.eq)

    def __ne__(self, o):
        return self._cmp(o, operator.ne)

    def __lt__(self, o):
        return self._cmp(o, operator.lt)

    def __le__(self, o):
        return self._cmp(o, operator.le)

    def __gt__(self, o):
        return self._cmp(o, operator.gt)

    def __ge__(self, o):
        return self._cmp(o, operator.ge)

    def __hash__(self):
        return hash(self.v)

    def __repr__(self):
        return f"np.int64({self.v})"

    def __str__(self):
        return str(self.v)


numbers.Integral.register(NpInt)


class NpFloat(float):
    def __repr__(self):
        return f"np.float64({float(self)!r})"

    def __str__(self):
        return repr(float(self))


class NdArray:
    """n-dimensional array of scalars (nested lists), dtype tag in
    {'float', 'int', 'bool', 'str'}"""

    def __init__(self, data, shape, dtype):
        self.data = data
        self.shape = tuple(shape)
        self.dtype = dtype

    @property
    def ndim(self):
        return len(self.shape)

    @property
    def size(self):
        n = 1
        for s in self.shape:
            n *= s
        return n

    @staticmethod
    def _shape_of(obj):
        if isinstance(obj, NdArray):
            return obj.shape, obj.data
        if isinstance(obj, (list, tuple)):
            subs = [NdArray._shape_of(o) for o in obj]
            shapes = {s for s, _ in subs}
            if len(shapes) > 1:
                raise ValueError("inhomogeneous shape")
            inner = shapes.pop() if shapes else ()
            return (len(obj),) + tuple(inner), [d for _, d in subs]
        return (), obj

    @classmethod
    def of(cls, obj, dtype=None):
        shape, data = cls._shape_of(obj)
        flat = []

        def rec(d, depth):
            if depth == len(shape):
                flat.append(d)
            else:
                for x in d:
                    rec(x, depth + 1)
        rec(data, 0)
        if dtype is None:
            if isinstance(obj, NdArray):
                dtype = obj.dtype
            elif any(isinstance(x, str) for x in flat):
                dtype = "str"
            elif any(isinstance(x, float) for x in flat) or not flat:
                dtype = "float"
            elif all(isinstance(x, (bool, NpBool)) for x in flat):
                dtype = "bool"
            else:
                dtype = "int"
        conv = {"float": float, "int": lambda x: int(float(x)),
                "bool": bool, "str": str}[dtype]

        def rec2(d, depth):
            if depth == len(shape):
                return conv(d)
            return [rec2(x, depth + 1) for x in d]
        return cls(rec2(data, 0), shape, dtype)

    def _wrap(self, x):
        return {"float": NpFloat, "int": NpInt, "bool": NpBool,
                "str": str}[self.dtype](x)

    def item(self):
        d = self.data
        for _ in self.shape:
            d = d[0]
        return self._wrap(d)

    def __iter__(self):
        if self.ndim == 0:
            raise TypeError("iteration over a 0-d array")
        if self.ndim == 1:
            return iter([self._wrap(x) for x in self.data])
        return iter([NdArray(r, self.shape[1:], self.dtype)
                     for r in self.data])

    def __len__(self):
        if self.ndim == 0:
            raise TypeError("len() of unsized object")
        return self.shape[0]

    def __getitem__(self, i):
        if isinstance(i, slice):
            if self.ndim == 0:
                raise IndexError("0-d array")
            d = self.data[i]
            return NdArray(d, (len(d),) + self.shape[1:], self.dtype)
        return list(self)[i]

    def __bool__(self):
        if self.size == 1:
            return bool(self.item())
        if self.size == 0:
            return False
        raise ValueError("truth value of an array is ambiguous")

    def __float__(self):
        if self.size == 1:
            return float(self.item())
        raise TypeError("only length-1 arrays can be converted")

    def __int__(self):
        if self.size == 1:
            return int(float(self.item()))
        raise TypeError("only length-1 arrays can be converted")

    def _elementwise(self, o, op):
        if isinstance(o, (list, tuple)):
            o = NdArray.of(o)
        if isinstance(o, NdArray):
            if o.shape != self.shape:
                raise ValueError("operands could not be broadcast together")

            def rec2(d, e, depth):
                if depth == len(self.shape):
                    return bool(op(d, e))
                return [rec2(x, y, depth + 1) for x, y in zip(d, e)]
            return NdArray(rec2(self.data, o.data, 0), self.shape, "bool")

        def rec(d, depth):
            if depth == len(self.shape):
                if isinstance(o, str) != isinstance(d, str):
                    return op is operator.ne
                return bool(op(d, o))
            return [rec(x, depth + 1) for x in d]
        return NdArray(rec(self.data, 0), self.shape, "bool")

    def __eq__(self, o):
        return self._elementwise(o, operator.eq)

    def __ne__(self, o):
        return self._elementwise(o, operator.ne)

    __hash__ = None

    def _arith(self, o, op):
        if isinstance(o, (list, tuple)):
            o = NdArray.of(o)
        if isinstance(o, str) or self.dtype == "str" or (
                isinstance(o, NdArray) and o.dtype == "str"):
            raise AnalysisError("model: arithmetic on string arrays")
        if isinstance(o, NdArray):
            if o.shape != self.shape:
                raise ValueError("operands could not be broadcast together")

            def rec2(d, e, depth):
                if depth == len(self.shape):
                    return op(d, e)
                return [rec2(x, y, depth + 1) for x, y in zip(d, e)]
            flt = "float" in (self.dtype, o.dtype)
            return NdArray(rec2(self.data, o.data, 0), self.shape,
                           "float" if flt else "int")

        def rec(d, depth):
            if depth == len(self.shape):
                return op(d, o)
            return [rec(x, depth + 1) for x in d]
        flt = self.dtype == "float" or isinstance(o, float)
        return NdArray(rec(self.data, 0), self.shape,
                       "float" if flt else "int")

    def __add__(self, o):
        return self._arith(o, operator.add)

    __radd__ = __add__

    def __sub__(self, o):
        return self._arith(o, operator.sub)

    def __mul__(self, o):
        return self._arith(o, operator.mul)

    __rmul__ = __mul__

    def tolist(self):
        return self.data

    def copy(self):
        return NdArray.of(self)

    def flat(self):
        out = []

        def rec(d, depth):
            if depth == len(self.shape):
                out.append(d)
            else:
                for x in d:
                    rec(x, depth + 1)
        rec(self.data, 0)
        return out

    def __repr__(self):
        return f"np.array({self.data!r})"


def _np_array(obj, dtype=None, copy=True):
    src = obj
    if dtype is not None:
        if dtype is NpFloat or dtype is float:
            dtype = "float"
        elif dtype is NpInt or dtype is int:
            dtype = "int"
        elif dtype is NpBool or dtype is bool:
            dtype = "bool"
        else:
            raise AnalysisError(f"model: np.array dtype {dtype!r}")
    if not copy and isinstance(src, NdArray) and dtype in (None, src.dtype):
        return src      # no copy needed: the very same array (alias)
    return NdArray.of(obj, dtype)


def _np_asarray(obj, dtype=None):
    """np.asarray: returns the argument itself when it already is an array
    of the requested dtype"""
    return _np_array(obj, dtype, copy=False)


def _np_diff(a):
    a = a if isinstance(a, NdArray) else NdArray.of(a)
    if a.ndim != 1:
        raise AnalysisError("model: np.diff of a non 1-d array")
    d = a.data
    out = [d[i + 1] - d[i] for i in range(len(d) - 1)]
    return NdArray(out, (len(out),), "float" if a.dtype == "float"
                   else "int")


class Namespace:
    """attribute bag (module / stub object)"""

    def __init__(self, name, **attrs):
        self._name = name
        self.__dict__.update(attrs)

    def __repr__(self):
        return f"<{self._name}>"


NP = Namespace("numpy", array=_np_array, asarray=_np_asarray, diff=_np_diff,
               ndarray=NdArray,
               bool_=NpBool, float64=NpFloat, int64=NpInt)


def type_tag(v):
    """short, stable name of the (modelled) type of a value"""
    for cls, tag in ((NpBool, "np.bool_"), (NpInt, "np.int64"),
                     (NpFloat, "np.float64"), (NdArray, "np.ndarray")):
        if isinstance(v, cls):
            return tag
    return type(v).__name__


def same_value(a, b):
    """value equality across the modelled types (True == np.bool_(True),
    (1., 2.) == array([1., 2.]) element-wise) – what `==`/`np.allclose`
    would say for the real objects"""
    seq = (list, tuple, NdArray)
    if isinstance(a, seq) or isinstance(b, seq):
        if not (isinstance(a, seq) and isinstance(b, seq)):
            return False
        try:
            la, lb = list(a), list(b)
        except TypeError:
            return False
        return len(la) == len(lb) and all(
            same_value(x, y) for x, y in zip(la, lb))
    if isinstance(a, str) or isinstance(b, str):
        return isinstance(a, str) and isinstance(b, str) and a == b
    if a is None or b is None:
        return a is b
    boolish = (bool, NpBool)
    if isinstance(a, boolish) != isinstance(b, boolish):
        return False
    try:
        return float(a) == float(b)
    except (TypeError, ValueError):
        return False


# ----------------------------------------------------------------------
# interpreter

class _Return(Exception):
    def __init__(self, v):
        self.v = v


class _Break(Exception):
    pass


class _Continue(Exception):
    pass


BUILTINS = {
    "isinstance": isinstance, "len": len, "bool": bool, "float": float,
    "int": int, "str": str, "tuple": tuple, "list": list, "dict": dict,
    "set": set, "sorted": sorted, "sum": sum, "range": range,
    "enumerate": enumerate, "zip": zip, "min": min, "max": max, "any": any,
    "all": all, "type": type, "bytes": bytes, "object": object,
    "UserWarning": UserWarning, "DeprecationWarning": DeprecationWarning,
    "True": True, "False": False, "None": None,
}

_CMP = {ast.Eq: operator.eq, ast.NotEq: operator.ne, ast.Lt: operator.lt,
        ast.LtE: operator.le, ast.Gt: operator.gt, ast.GtE: operator.ge,
        ast.Is: operator.is_, ast.IsNot: operator.is_not,
        ast.In: lambda a, b: a in b, ast.NotIn: lambda a, b: a not in b}
_BIN = {ast.Add: operator.add, ast.Sub: operator.sub, ast.Mult: operator.mul,
        ast.Mod: operator.mod, ast.FloorDiv: operator.floordiv,
        ast.Div: operator.truediv, ast.BitOr: operator.or_,
        ast.BitAnd: operator.and_}

_RAISES = (ValueError, TypeError, AttributeError, KeyError, IndexError,
           ZeroDivisionError)

import re as _re
import collections as _collections
import functools as _functools
import itertools as _itertools
import operator as _operator2

#: standard-library modules the interpreted code may use as they are
STDLIB = {"numbers": numbers, "collections": _collections,
          "itertools": _itertools, "functools": _functools, "re": _re,
          "operator": _operator2}

_ATTR_OK = (str, list, dict, tuple, set, NdArray, Namespace, NpBool, NpInt,
            NpFloat, bytes, _re.Pattern, _re.Match)


def _is_generator(node):
    stack = list(node.body)
    while stack:
        n = stack.pop()
        if isinstance(n, (ast.Yield, ast.YieldFrom)):
            return True
        if isinstance(n, FUNC_LIKE):
            continue
        stack.extend(ast.iter_child_nodes(n))
    return False


FUNC_LIKE = (ast.FunctionDef, ast.AsyncFunctionDef, ast.Lambda, ast.ClassDef)


class Func:
    """an interpreted function / lambda (callable from Python)"""

    def __init__(self, node, globs, interp, closure=None, name=None):
        self.node = node
        self.globs = globs
        self.interp = interp
        self.closure = closure
        self.__name__ = name or getattr(node, "name", "<lambda>")

    def __call__(self, *args, **kwargs):
        return self.interp.call(self, args, kwargs)

    def __deepcopy__(self, memo):
        return self     # functions are atomic for copy.deepcopy

    def __copy__(self):
        return self

    def __repr__(self):
        return f"<interpreted {self.__name__}>"


class Interp:
    MAX_STEPS = 200000

    def __init__(self):
        self.steps = 0
        self.raise_sites = []
        self._yields = []

    # -- calling -----------------------------------------------------
    def call(self, fn, args, kwargs):
        node = fn.node
        a = node.args
        if a.kwonlyargs or a.posonlyargs:
            raise AnalysisError(
                f"model: unsupported signature of {fn.__name__}")
        names = [p.arg for p in a.args]
        loc = {}
        if len(args) > len(names):
            if not a.vararg:
                raise ModelRaise("TypeError", "too many arguments")
            loc[a.vararg.arg] = tuple(args[len(names):])
            args = args[:len(names)]
        elif a.vararg:
            loc[a.vararg.arg] = ()
        loc.update(zip(names, args))
        extra = {}
        for k, v in kwargs.items():
            if k in names and k not in loc:
                loc[k] = v
            elif a.kwarg and k not in names:
                extra[k] = v
            else:
                raise ModelRaise("TypeError", f"argument {k}")
        if a.kwarg:
            loc[a.kwarg.arg] = extra
        defaults = a.defaults
        for p, d in zip(names[len(names) - len(defaults):], defaults):
            if p not in loc:
                loc[p] = self.ev(d, {}, fn.globs, None)
        for p in names:
            if p not in loc:
                raise ModelRaise("TypeError", f"missing argument {p}")
        env = (loc, fn.globs, fn.closure)
        if isinstance(node, ast.Lambda):
            return self.ev(node.body, *env)
        if _is_generator(node):
            # generator function: the yielded values are collected eagerly
            # (laziness is not modelled)
            self._yields.append([])
            try:
                try:
                    self.block(node.body, *env)
                except _Return:
                    pass
                return list(self._yields[-1])
            finally:
                self._yields.pop()
        try:
            self.block(node.body, *env)
        except _Return as r:
            return r.v
        return None

    # -- statements --------------------------------------------------
    def block(self, stmts, loc, globs, clo):
        for s in stmts:
            self.stmt(s, loc, globs, clo)

    def stmt(self, s, loc, globs, clo):
        self.steps += 1
        if self.steps > self.MAX_STEPS:
            raise AnalysisError("model: step budget exhausted")
        env = (loc, globs, clo)
        if isinstance(s, ast.Expr):
            self.ev(s.value, *env)
        elif isinstance(s, ast.Assign):
            v = self.ev(s.value, *env)
            for t in s.targets:
                self.assign(t, v, *env)
        elif isinstance(s, ast.AugAssign):
            cur = self.ev(_as_load(s.target), *env)
            v = self.ev(s.value, *env)
            op = _BIN.get(type(s.op))
            if op is None:
                raise AnalysisError(f"model: operator in `{txt(s)}`")
            if isinstance(s.op, ast.Add) and isinstance(cur, list):
                # `lst += it` extends the object in place (every alias of
                # the list sees the new items), then re-binds the target
                new = self._try(operator.iadd, cur, v)
            else:
                new = self._try(op, cur, v)
            self.assign(s.target, new, *env)
        elif isinstance(s, ast.If):
            if self.truth(self.ev(s.test, *env)):
                self.block(s.body, *env)
            else:
                self.block(s.orelse, *env)
        elif isinstance(s, ast.For):
            it = self.ev(s.iter, *env)
            try:
                seq = list(it)
            except _RAISES as e:
                raise ModelRaise(type(e).__name__, str(e))
            broke = False
            for x in seq:
                self.assign(s.target, x, *env)
                try:
                    self.block(s.body, *env)
                except _Continue:
                    continue
                except _Break:
                    broke = True
                    break
            if not broke:
                self.block(s.orelse, *env)
        elif isinstance(s, ast.Return):
            raise _Return(None if s.value is None else self.ev(s.value, *env))
        elif isinstance(s, ast.Raise):
            name = "Exception"
            if s.exc is not None:
                e = s.exc.func if isinstance(s.exc, ast.Call) else s.exc
                name = txt(e).split(".")[-1]
            self.raise_sites.append(s)
            raise ModelRaise(name, "explicit raise")
        elif isinstance(s, ast.Pass):
            pass
        elif isinstance(s, ast.Try):
            try:
                try:
                    self.block(s.body, *env)
                except ModelRaise as e:
                    for h in s.handlers:
                        if h.type is None:
                            names = None
                        elif isinstance(h.type, ast.Tuple):
                            names = [txt(t).split(".")[-1]
                                     for t in h.type.elts]
                        else:
                            names = [txt(h.type).split(".")[-1]]
                        if names is None or e.name in names or set(
                                names) & {"Exception", "BaseException"}:
                            if h.name:
                                self.assign(
                                    ast.Name(id=h.name, ctx=ast.Store()),
                                    Namespace("exc", args=e.model_args,
                                              __class__=Namespace(
                                                  "exc_class",
                                                  __name__=e.name)),
                                    *env)
                            self.block(h.body, *env)
                            break
                    else:
                        raise
                else:
                    self.block(s.orelse, *env)
            finally:
                if s.finalbody:
                    self.block(s.finalbody, *env)
        elif isinstance(s, ast.With):
            # model objects only (see enter_context / exit_context); the
            # contexts are left in reverse order, also when the body raises
            # or returns; no exception is swallowed by the stand-ins
            entered = []
            try:
                for it in s.items:
                    cm = self.ev(it.context_expr, *env)
                    try:
                        v = enter_context(cm)
                    except AnalysisError:
                        raise AnalysisError(
                            "model: with-statement on "
                            f"`{txt(it.context_expr)}`")
                    entered.append(cm)
                    if it.optional_vars is not None:
                        self.assign(it.optional_vars, v, *env)
                self.block(s.body, *env)
            finally:
                for cm in reversed(entered):
                    exit_context(cm)
        elif isinstance(s, ast.Continue):
            raise _Continue()
        elif isinstance(s, ast.Break):
            raise _Break()
        elif isinstance(s, (ast.FunctionDef,)):
            tgt = loc if loc is not None else globs
            fn = Func(s, globs, self, closure=loc)
            for d in reversed(s.decorator_list):
                # decorators are applied as written (functools.lru_cache,
                # ... are the real ones: a memo behaves like a memo)
                dec = self.ev(d, *env)
                if not callable(dec):
                    raise AnalysisError(f"model: decorator of {s.name}")
                fn = self._try(dec, fn)
            tgt[s.name] = fn
        elif isinstance(s, (ast.Import, ast.ImportFrom)):
            self.do_import(s, loc if loc is not None else globs)
        else:
            raise AnalysisError(
                f"model: unsupported statement `{txt(s)[:60]}`")

    def do_import(self, s, target):
        raise AnalysisError(f"model: import `{txt(s)}` not resolvable")

    def assign(self, t, v, loc, globs, clo):
        store = loc if loc is not None else globs
        if isinstance(t, ast.Name):
            store[t.id] = v
        elif isinstance(t, (ast.Tuple, ast.List)):
            try:
                vals = list(v)
            except _RAISES as e:
                raise ModelRaise(type(e).__name__, str(e))
            if len(vals) != len(t.elts):
                raise ModelRaise("ValueError", "unpack")
            for tt, vv in zip(t.elts, vals):
                self.assign(tt, vv, loc, globs, clo)
        elif isinstance(t, ast.Subscript):
            obj = self.ev(t.value, loc, globs, clo)
            idx = self.ev(t.slice, loc, globs, clo)
            if not isinstance(obj, (dict, list)):
                setter = getattr(obj, "model_setitem", None)
                if setter is None:
                    raise AnalysisError(
                        f"model: item assignment on {type(obj).__name__}")
                setter(idx, v)
            else:
                self._try(operator.setitem, obj, idx, v)
        elif isinstance(t, ast.Attribute):
            obj = self.ev(t.value, loc, globs, clo)
            if not isinstance(obj, Namespace):
                raise AnalysisError(f"model: attribute store `{txt(t)}`")
            setattr(obj, t.attr, v)
        else:
            raise AnalysisError(f"model: assignment target `{txt(t)}`")

    # -- expressions -------------------------------------------------
    def truth(self, v):
        try:
            return bool(v)
        except _RAISES as e:
            raise ModelRaise(type(e).__name__, str(e))

    def _try(self, f, *a, **k):
        try:
            return f(*a, **k)
        except _RAISES as e:
            raise ModelRaise(type(e).__name__, str(e))

    def lookup(self, name, loc, globs, clo):
        if loc is not None and name in loc:
            return loc[name]
        if clo is not None and name in clo:
            return clo[name]
        if name in globs:
            return globs[name]
        if name in BUILTINS:
            return BUILTINS[name]
        if name == "hasattr":
            return self._hasattr
        if name == "getattr":
            return self._getattr
        raise AnalysisError(f"model: unknown name `{name}`")

    def _hasattr(self, obj, attr):
        try:
            self.getattr(obj, attr, ast.Name(id=f"<hasattr {attr}>"))
            return True
        except ModelRaise as e:
            if e.name == "AttributeError":
                return False
            raise
    _hasattr.model_callable = True

    _NODEFAULT = object()

    def _getattr(self, obj, attr, default=_NODEFAULT):
        try:
            return self.getattr(obj, attr, ast.Name(id=f"<getattr {attr}>"))
        except ModelRaise as e:
            if e.name == "AttributeError" and default is not \
                    Interp._NODEFAULT:
                return default
            raise
    _getattr.model_callable = True

    def ev(self, e, loc, globs, clo):
        self.steps += 1
        if self.steps > self.MAX_STEPS:
            raise AnalysisError("model: step budget exhausted")
        env = (loc, globs, clo)
        if isinstance(e, ast.Constant):
            return e.value
        if isinstance(e, ast.Name):
            return self.lookup(e.id, *env)
        if isinstance(e, ast.Attribute):
            obj = self.ev(e.value, *env)
            return self.getattr(obj, e.attr, e)
        if isinstance(e, ast.Call):
            f = self.ev(e.func, *env)
            args = []
            for a in e.args:
                if isinstance(a, ast.Starred):
                    args.extend(self._try(list, self.ev(a.value, *env)))
                else:
                    args.append(self.ev(a, *env))
            kw = {}
            for k in e.keywords:
                if k.arg is None:
                    more = self.ev(k.value, *env)
                    if not isinstance(more, dict):
                        raise ModelRaise("TypeError", "** needs a mapping")
                    kw.update(more)
                else:
                    kw[k.arg] = self.ev(k.value, *env)
            if isinstance(f, Func) or getattr(f, "model_callable", False):
                return f(*args, **kw)
            if not callable(f):
                raise ModelRaise("TypeError", f"`{txt(e.func)}` not callable")
            return self._try(f, *args, **kw)
        if isinstance(e, ast.BoolOp):
            v = None
            for sub in e.values:
                v = self.ev(sub, *env)
                t = self.truth(v)
                if isinstance(e.op, ast.And) and not t:
                    return v
                if isinstance(e.op, ast.Or) and t:
                    return v
            return v
        if isinstance(e, ast.UnaryOp):
            v = self.ev(e.operand, *env)
            if isinstance(e.op, ast.Not):
                return not self.truth(v)
            if isinstance(e.op, ast.USub):
                return self._try(operator.neg, v)
            raise AnalysisError(f"model: unary operator in `{txt(e)}`")
        if isinstance(e, ast.Compare):
            left = self.ev(e.left, *env)
            res = True
            for op, c in zip(e.ops, e.comparators):
                right = self.ev(c, *env)
                f = _CMP.get(type(op))
                if f is None:
                    raise AnalysisError(f"model: comparison in `{txt(e)}`")
                res = self._try(f, left, right)
                if len(e.ops) > 1 and not self.truth(res):
                    return res
                left = right
            return res
        if isinstance(e, ast.BinOp):
            f = _BIN.get(type(e.op))
            if f is None:
                raise AnalysisError(f"model: operator in `{txt(e)}`")
            return self._try(f, self.ev(e.left, *env), self.ev(e.right, *env))
        if isinstance(e, ast.IfExp):
            if self.truth(self.ev(e.test, *env)):
                return self.ev(e.body, *env)
            return self.ev(e.orelse, *env)
        if isinstance(e, ast.Tuple):
            return tuple(self.ev(x, *env) for x in e.elts)
        if isinstance(e, ast.List):
            return [self.ev(x, *env) for x in e.elts]
        if isinstance(e, ast.Set):
            return {self.ev(x, *env) for x in e.elts}
        if isinstance(e, ast.Dict):
            out = {}
            for k, v in zip(e.keys, e.values):
                if k is None:
                    raise AnalysisError("model: dict unpacking")
                out[self.ev(k, *env)] = self.ev(v, *env)
            return out
        if isinstance(e, ast.Subscript):
            obj = self.ev(e.value, *env)
            idx = self.ev(e.slice, *env)
            return self._try(operator.getitem, obj, idx)
        if isinstance(e, ast.Slice):
            return slice(*(None if x is None else self.ev(x, *env)
                           for x in (e.lower, e.upper, e.step)))
        if isinstance(e, ast.JoinedStr):
            out = []
            for v in e.values:
                if isinstance(v, ast.Constant):
                    out.append(str(v.value))
                else:
                    val = self.ev(v.value, *env)
                    try:
                        out.append(format(val, "") if not v.format_spec
                                   else str(val))
                    except Exception:
                        out.append("<?>")
            return "".join(out)
        if isinstance(e, ast.Lambda):
            return Func(e, globs, self, closure=loc)
        if isinstance(e, (ast.ListComp, ast.GeneratorExp, ast.SetComp)):
            out = []
            self._comp(e, 0, dict(loc or {}), globs, clo, out)
            if isinstance(e, ast.SetComp):
                return set(out)
            return out
        if isinstance(e, ast.Yield):
            if not self._yields:
                raise AnalysisError("model: yield outside a generator")
            self._yields[-1].append(
                None if e.value is None else self.ev(e.value, *env))
            return None
        if isinstance(e, ast.YieldFrom):
            if not self._yields:
                raise AnalysisError("model: yield outside a generator")
            self._yields[-1].extend(self._try(list, self.ev(e.value, *env)))
            return None
        if isinstance(e, ast.NamedExpr):
            v = self.ev(e.value, *env)
            self.assign(e.target, v, *env)
            return v
        if isinstance(e, ast.DictComp):
            out = []
            self._comp(e, 0, dict(loc or {}), globs, clo, out)
            return dict(out)
        raise AnalysisError(f"model: unsupported expression `{txt(e)[:60]}`")

    def _comp(self, e, i, loc, globs, clo, out):
        if i == len(e.generators):
            if isinstance(e, ast.DictComp):
                out.append((self.ev(e.key, loc, globs, clo),
                            self.ev(e.value, loc, globs, clo)))
            else:
                out.append(self.ev(e.elt, loc, globs, clo))
            return
        g = e.generators[i]
        it = self.ev(g.iter, loc, globs, clo)
        try:
            seq = list(it)
        except _RAISES as ex:
            raise ModelRaise(type(ex).__name__, str(ex))
        for x in seq:
            self.assign(g.target, x, loc, globs, clo)
            if all(self.truth(self.ev(c, loc, globs, clo)) for c in g.ifs):
                self._comp(e, i + 1, loc, globs, clo, out)

    def getattr(self, obj, attr, node):
        hook = getattr(obj, "model_getattr", None)
        if hook is not None:
            return hook(attr)
        if isinstance(obj, Namespace) and attr in obj.__dict__:
            return obj.__dict__[attr]
        if isinstance(obj, _ATTR_OK) or any(
                obj is m for m in STDLIB.values()) \
                or isinstance(obj, type) \
                or getattr(type(obj), "model_object", False):
            if attr.startswith("_") and not isinstance(obj, Namespace):
                raise AnalysisError(f"model: private attribute `{txt(node)}`")
            try:
                return getattr(obj, attr)
            except AttributeError:
                raise ModelRaise(
                    "AttributeError",
                    f"{type_tag(obj)} has no attribute {attr}")
        if isinstance(obj, (bool, int, float)) or obj is None:
            raise ModelRaise("AttributeError",
                             f"{type_tag(obj)} has no attribute {attr}")
        raise AnalysisError(
            f"model: attribute `{attr}` of {type(obj).__name__} in "
            f"`{txt(node)[:60]}`")


def _as_load(t):
    n = ast.parse(txt(t), mode="eval").body
    return n


class ModuleInterp(Interp):
    """executes module-level table-building code (assignments, loops, defs,
    imports resolved through `importer(modname, level) -> namespace`)"""

    def __init__(self, importer):
        super().__init__()
        self.importer = importer

    def do_import(self, s, target):
        if isinstance(s, ast.Import):
            for al in s.names:
                target[al.asname or al.name.split(".")[0]] = self.importer(
                    al.name, 0, None)
        else:
            for al in s.names:
                if s.module is None:
                    val = self.importer(al.name, s.level, None)
                else:
                    val = self.importer(s.module, s.level, al.name)
                target[al.asname or al.name] = val

    def run_module(self, tree, name):
        globs = {"__name__": name}
        for s in tree.body:
            if isinstance(s, ast.Expr) and isinstance(
                    s.value, ast.Constant):
                continue   # docstring / #: comment strings
            self.stmt(s, None, globs, None)
        return globs


# ----------------------------------------------------------------------
# interpreted classes

def class_methods(node):
    """{name: FunctionDef} of a class including the methods it inherits from
    base classes defined in the same file (left-to-right, depth first; the
    class's own definitions win)"""
    mod = node
    while getattr(mod, "parent", None) is not None:
        mod = mod.parent
    classes = {}
    for st in ast.walk(mod):
        if isinstance(st, ast.ClassDef):
            classes.setdefault(st.name, st)
    out = {}
    seen = set()

    def rec(c):
        if c.name in seen:
            return
        seen.add(c.name)
        for f in c.body:
            if isinstance(f, ast.FunctionDef):
                out.setdefault(f.name, f)
        for b in c.bases:
            if isinstance(b, ast.Name) and b.id in classes:
                rec(classes[b.id])
    rec(node)
    return out


def _method_kind(fn):
    kinds = {txt(d).split(".")[-1] for d in fn.decorator_list}
    for k in ("staticmethod", "classmethod", "property"):
        if k in kinds:
            return k
    if any(k.endswith(("setter", "deleter")) for k in kinds):
        return "other"
    return "plain"


class ClassModel(Namespace):
    """Stand-in for a class of the repository whose methods are interpreted:
    ``Cls.helper(...)`` (static / class / plain methods) resolves to the
    interpreted function, ``Cls(...)`` creates an InstanceModel and runs the
    interpreted ``__init__`` (or `ctor` if given)."""
    model_callable = True

    def __init__(self, node, globs, interp, ctor=None, **attrs):
        super().__init__(node.name, **attrs)
        self._node = node
        self._globs = globs
        self._interp = interp
        self._ctor = ctor
        self._methods = class_methods(node)

    def _resolve(self, attr, inst=None):
        fn = self._methods.get(attr)
        if fn is None:
            return None
        kind = _method_kind(fn)
        func = Func(fn, self._globs, self._interp)
        if kind == "staticmethod":
            return func
        if kind == "classmethod":
            return _bind(func, self)
        if kind == "property":
            if inst is None:
                raise AnalysisError(
                    f"model: property {self._name}.{attr} read on the class")
            return _Value(func(inst))
        if kind == "other":
            raise AnalysisError(f"model: decorator of {self._name}.{attr}")
        return func if inst is None else _bind(func, inst)

    def _init_default(self, attr):
        """(found, value) of an instance attribute that ``__init__`` sets
        from an expression that does not depend on its arguments (empty
        containers, constants) – the model instances are created without
        running ``__init__``"""
        init = self._methods.get("__init__")
        if init is None:
            return False, None
        for n in ast.walk(init):
            if isinstance(n, ast.Assign) and any(
                    isinstance(t, ast.Attribute) and t.attr == attr
                    and isinstance(t.value, ast.Name)
                    and t.value.id == "self" for t in n.targets):
                try:
                    return True, self._interp.ev(n.value, {}, self._globs,
                                                 None)
                except AnalysisError:
                    return False, None
        return False, None

    def model_getattr(self, attr):
        if attr in self.__dict__ and not attr.startswith("_") or \
                attr == "__dict__" and "__dict__" in self.__dict__:
            return self.__dict__[attr]
        if attr == "__name__":
            return self._name
        r = self._resolve(attr)
        if r is None:
            raise AnalysisError(
                f"model: {self._name}.{attr} is not a method of the class")
        return r.v if isinstance(r, _Value) else r

    def instance(self, **attrs):
        return InstanceModel(self, **attrs)

    def __call__(self, *a, **k):
        if self._ctor is not None:
            return self._ctor(*a, **k)
        inst = InstanceModel(self)
        init = self._methods.get("__init__")
        if init is not None:
            Func(init, self._globs, self._interp)(inst, *a, **k)
        elif a or k:
            raise ModelRaise("TypeError", f"{self._name}() takes no "
                                          "arguments")
        return inst


class _Value:
    def __init__(self, v):
        self.v = v


def _bind(func, first):
    def bound(*a, **k):
        return func(first, *a, **k)
    bound.model_callable = True
    bound.__name__ = getattr(func, "__name__", "bound")
    return bound


class InstanceModel(Namespace):
    """instance of a ClassModel: own attributes first, then the interpreted
    methods / properties of the class"""

    def __init__(self, cls, **attrs):
        super().__init__(f"{cls._name} instance", **attrs)
        self.__dict__["_cls"] = cls

    def model_setitem(self, key, value):
        """``self[key] = value`` -> the (possibly overridden) __setitem__"""
        self.model_getattr("__setitem__")(key, value)

    def model_getattr(self, attr):
        if attr in self.__dict__ and attr != "_cls":
            return self.__dict__[attr]
        if attr == "__class__":
            return self.__dict__["_cls"]
        r = self.__dict__["_cls"]._resolve(attr, inst=self)
        if r is None:
            found, val = self.__dict__["_cls"]._init_default(attr)
            if found:
                self.__dict__[attr] = val
                return val
            if self.__dict__["_cls"].__dict__.get("strict_instances"):
                raise AnalysisError(
                    f"model: {self._name} attribute `{attr}` is not "
                    "modelled")
            raise ModelRaise(
                "AttributeError",
                f"{self._name} has no attribute {attr}")
        return r.v if isinstance(r, _Value) else r


def module_level(tree, globs, interp, assigns=True):
    """Make the module-level helpers of the analysed file available to the
    interpreted code: every module-level function is interpreted by
    definition when called; simple module-level assignments (constants,
    namedtuple classes) are evaluated, those that cannot be are skipped."""
    import collections
    globs.setdefault("namedtuple", collections.namedtuple)
    globs.setdefault("collections", Namespace(
        "collections", namedtuple=collections.namedtuple,
        OrderedDict=collections.OrderedDict))
    for st in tree.body:
        if isinstance(st, ast.FunctionDef) and st.name not in globs:
            globs[st.name] = Func(st, globs, interp)
    if not assigns:
        return
    for st in tree.body:
        if isinstance(st, ast.Assign) and len(st.targets) == 1 \
                and isinstance(st.targets[0], ast.Name) \
                and st.targets[0].id not in globs:
            try:
                globs[st.targets[0].id] = interp.ev(st.value, None, globs,
                                                    None)
            except (AnalysisError, ModelRaise):
                pass


# ----------------------------------------------------------------------
# context managers of the model

def enter_context(cm):
    """value bound by ``with cm as value`` for a model object"""
    if hasattr(type(cm), "model_enter"):
        return cm.model_enter()
    if isinstance(cm, Namespace):
        if "__enter__" in cm.__dict__:
            return cm.__dict__["__enter__"]()
        return cm
    raise AnalysisError(f"model: {type(cm).__name__} is not a modelled "
                        "context manager")


def exit_context(cm):
    if hasattr(type(cm), "model_exit"):
        cm.model_exit()
    elif isinstance(cm, Namespace) and "__exit__" in cm.__dict__:
        cm.__dict__["__exit__"](None, None, None)


class ModelExitStack:
    """contextlib.ExitStack: enter_context / callback / push / close;
    everything registered is left in reverse order"""
    model_object = True

    def __init__(self):
        self.todo = []

    def model_enter(self):
        return self

    def model_exit(self):
        self.close()

    def enter_context(self, cm):
        v = enter_context(cm)
        self.todo.append(lambda: exit_context(cm))
        return v

    def callback(self, fn, *a, **k):
        self.todo.append(lambda: fn(*a, **k))
        return fn

    def push(self, cm):
        self.todo.append(lambda: exit_context(cm))
        return cm

    def pop_all(self):
        new = ModelExitStack()
        new.todo, self.todo = self.todo, []
        return new

    def close(self):
        while self.todo:
            self.todo.pop()()


class ModelNullContext:
    """contextlib.nullcontext(enter_result)"""
    model_object = True

    def __init__(self, enter_result=None):
        self.enter_result = enter_result

    def model_enter(self):
        return self.enter_result

    def model_exit(self):
        pass


CONTEXTLIB = Namespace("contextlib", ExitStack=ModelExitStack,
                       nullcontext=ModelNullContext)


# ----------------------------------------------------------------------
# module environments: names of the analysed file and of repository modules
# it imports are resolved by definition

class ModuleEnv(dict):
    """globals of one analysed file.  Lookup order: names set explicitly
    (stand-ins of the rule, assignments), the stand-ins shared by all files
    of the environment, module-level definitions of the file (functions,
    classes, simple assignments – evaluated lazily), names the file imports
    from other repository modules (resolved in *their* ModuleEnv) or from
    the standard-library modules of STDLIB.  Anything else is unknown
    (AnalysisError in the interpreter)."""

    def __init__(self, envs, rel):
        super().__init__()
        self.envs = envs
        self.rel = rel
        self.tree = envs.repo.tree(rel)
        self._defs = {}
        self._imports = {}
        self._busy = set()
        self._explicit = {}
        for st in self.tree.body:
            self._scan(st)

    def _scan(self, st):
        if isinstance(st, (ast.FunctionDef, ast.ClassDef)):
            self._defs[st.name] = st
        elif isinstance(st, ast.Assign) and len(st.targets) == 1 \
                and isinstance(st.targets[0], ast.Name):
            self._defs[st.targets[0].id] = st
        elif isinstance(st, ast.ImportFrom):
            for al in st.names:
                self._imports[al.asname or al.name] = (
                    st.module, st.level, al.name)
        elif isinstance(st, ast.Import):
            for al in st.names:
                if al.asname:
                    self._imports[al.asname] = (al.name, 0, None)
                else:
                    top = al.name.split(".")[0]
                    self._imports[top] = (top, 0, None)
        elif isinstance(st, (ast.If, ast.Try)):
            for sub in st.body:
                self._scan(sub)

    def __contains__(self, name):
        if dict.__contains__(self, name) or name in self.envs.shared:
            return True
        return name in self._defs or self._importable(name)

    def _importable(self, name):
        if name not in self._imports:
            return False
        mod, level, attr = self._imports[name]
        if level == 0:
            return mod in STDLIB or mod.split(".")[0] in STDLIB
        return self.envs.resolve(self.rel, mod, level, attr) is not None

    def __getitem__(self, name):
        if dict.__contains__(self, name):
            return dict.__getitem__(self, name)
        if name in self.envs.shared:
            return self.envs.shared[name]
        if name in self._defs:
            if name in self._busy:
                raise AnalysisError(f"model: cyclic definition of {name}")
            self._busy.add(name)
            try:
                st = self._defs[name]
                interp = self.envs.interp
                if isinstance(st, ast.FunctionDef):
                    val = Func(st, self, interp)
                    for d in reversed(st.decorator_list):
                        val = interp._try(interp.ev(d, None, self, None),
                                          val)
                elif isinstance(st, ast.ClassDef):
                    val = ClassModel(st, self, interp)
                else:
                    val = interp.ev(st.value, None, self, None)
            finally:
                self._busy.discard(name)
            dict.__setitem__(self, name, val)
            return val
        if name in self._imports:
            mod, level, attr = self._imports[name]
            if level == 0:
                top = mod.split(".")[0]
                if top in STDLIB:
                    val = STDLIB[top]
                    for part in mod.split(".")[1:]:
                        val = getattr(val, part)
                    if attr is not None:
                        val = getattr(val, attr)
                    dict.__setitem__(self, name, val)
                    return val
            else:
                tgt = self.envs.resolve(self.rel, mod, level, attr)
                if tgt is not None:
                    rel2, attr2 = tgt
                    env2 = self.envs.env(rel2)
                    val = env2[attr2] if attr2 is not None else \
                        Namespace(rel2, model_getattr=env2.__getitem__)
                    dict.__setitem__(self, name, val)
                    return val
        raise KeyError(name)

    def get(self, name, default=None):
        try:
            return self[name]
        except (KeyError, AnalysisError):
            return default

    def setdefault(self, name, value):
        if name not in self:
            dict.__setitem__(self, name, value)
        return self[name]

    def copy_with(self, **overrides):
        """a separate environment of the same file: the explicit entries of
        this one plus `overrides` (functions created from it see them)"""
        new = ModuleEnv(self.envs, self.rel)
        for k in dict.keys(self):
            v = dict.__getitem__(self, k)
            # cached module-level definitions are re-created on demand so
            # that they are bound to the new environment
            if k in self._defs and not self._explicit.get(k):
                continue
            dict.__setitem__(new, k, v)
            new._explicit[k] = True
        for k, v in overrides.items():
            new.set(k, v)
        return new

    def set(self, name, value):
        dict.__setitem__(self, name, value)
        self._explicit[name] = True

    def __setitem__(self, name, value):
        self.set(name, value)

    def update(self, *a, **k):
        for m in list(a) + [k]:
            for kk in m:
                self.set(kk, m[kk])


class ModuleEnvs:
    def __init__(self, repo, interp, shared=None):
        self.repo = repo
        self.interp = interp
        self.shared = dict(shared or {})
        self._envs = {}

    def env(self, rel, **overrides):
        if rel not in self._envs:
            self._envs[rel] = ModuleEnv(self, rel)
        e = self._envs[rel]
        for k, v in overrides.items():
            e.set(k, v)
        return e

    def fresh(self, rel, **overrides):
        """an environment of `rel` that is not shared with other users"""
        e = ModuleEnv(self, rel)
        for k, v in overrides.items():
            e.set(k, v)
        return e

    def resolve(self, rel, mod, level, attr):
        """(file, name) a relative import refers to, or None"""
        parts = rel.split("/")[:-1]
        if level > 1:
            parts = parts[:len(parts) - (level - 1)]
        base = "/".join(parts)
        cands = []
        if mod:
            path = base + "/" + mod.replace(".", "/")
            cands.append((path + ".py", attr))
            cands.append((path + "/__init__.py", attr))
            if attr is not None:
                cands.insert(0, (path + "/" + attr + ".py", None))
        elif attr is not None:
            cands.append((base + "/" + attr + ".py", None))
            cands.append((base + "/" + attr + "/__init__.py", None))
            cands.append((base + "/__init__.py", attr))
        for r, a in cands:
            if self.repo.exists(r):
                return r, a
        return None
