"""Small-scope symbolic evaluation of selection code (helpers for C02/C09/C12).

``Mini`` interprets the syntax tree of a repository function over *model
objects*: events are uninterpreted tokens ``Ev(feature, index)``, feature data
are ``Feat`` objects that hand out tokens, boolean / integer index arrays are
``Arr`` objects with the numpy indexing laws that matter for selection
(boolean masks must match in length, integer gathers keep order, slice
assignment broadcasts).  The harness of a rule supplies the module-level names
the function uses (``np``, ``dfn``, ``warnings`` …) as model namespaces.

Nothing of the repository is imported or executed; this walks syntax trees.
Everything the interpreter does not know (statement kind, global name, model
attribute) raises ``MiniError`` (an ``AnalysisError``: exit 2).  ``ModelFault``
means *the interpreted program itself* would fail at run time on the modelled
input (unbound local, mismatching boolean index, reached ``raise``) – rules
turn that into a violation.
"""
from __future__ import annotations

import ast
import collections
import functools
import itertools
import math
import operator

from .core import AnalysisError, txt


class MiniError(AnalysisError):
    """construct outside the interpreted fragment (fail closed)"""


class ModelFault(Exception):
    """the interpreted code would raise on the modelled input"""


class _Return(Exception):
    def __init__(self, value):
        self.value = value


class _Break(Exception):
    pass


class _Continue(Exception):
    pass


# ----------------------------------------------------------------------
# model values

class NS:
    """namespace of model callables / constants (np, dfn, warnings …)"""

    def __init__(self, _name="ns", **kw):
        self.__dict__["_name"] = _name
        self.__dict__.update(kw)

    def __getattr__(self, item):
        raise MiniError(f"model namespace `{self._name}` has no `{item}`")


class Opaque:
    """a value the oracle never looks at (paths, compression settings…)"""

    def __init__(self, label="opaque"):
        self._label = label

    def __getattr__(self, item):
        if item.startswith("__"):
            raise AttributeError(item)
        return Opaque(f"{self._label}.{item}")

    def __call__(self, *a, **k):
        return Opaque(f"{self._label}()")

    def __bool__(self):
        raise MiniError(f"truth value of opaque model value {self._label}")

    def __repr__(self):
        return f"<{self._label}>"


class Ev:
    """one event of one feature (uninterpreted token)"""
    __slots__ = ("feat", "i", "tag")

    def __init__(self, feat, i, tag=None):
        self.feat = feat
        self.i = i
        self.tag = tag      # e.g. "log" after a logarithm, "nan", "inf"

    @property
    def shape(self):
        return ("item-shape", self.feat)

    def reshape(self, *a):
        return self

    def _key(self):
        return (self.feat, self.i, self.tag)

    def __eq__(self, o):
        return isinstance(o, Ev) and self._key() == o._key()

    def __hash__(self):
        return hash(self._key())

    def __repr__(self):
        t = f"/{self.tag}" if self.tag else ""
        return f"{self.feat}[{self.i}]{t}"


class DType(str):
    """dtype of a model array: compares like its name, has numpy's `kind`
    (feature values are floating point in the model)"""

    @property
    def kind(self):
        return {"bool": "b", "int": "i"}.get(str(self), "f")


class Arr:
    """1-d array with the numpy indexing laws relevant for selection"""

    def __init__(self, items=(), kind=None):
        self.v = list(items)
        if kind is None and self.v:
            if all(isinstance(x, bool) for x in self.v):
                kind = "bool"
            elif all(isinstance(x, int) for x in self.v):
                kind = "int"
        self.kind = kind

    # -- basics
    def __len__(self):
        return len(self.v)

    def __iter__(self):
        return iter(list(self.v))

    @property
    def size(self):
        return len(self.v)

    @property
    def ndim(self):
        return 1

    @property
    def shape(self):
        return (len(self.v),)

    @property
    def dtype(self):
        return DType(self.kind or "object")

    def copy(self):
        return Arr(self.v, self.kind)

    def flatten(self):
        return Arr(self.v, self.kind)

    def reshape(self, *shape):
        # a 1-d model array reshaped is a view of the same data
        return self

    def ravel(self):
        return self

    def astype(self, dtype, copy=True):
        return Arr(self.v, self.kind)

    def _reduce(self, fn, what):
        if not self.v:
            raise ModelFault(f"zero-size array to reduction operation "
                             f"{what}")
        try:
            return fn(self.v)
        except TypeError:
            raise MiniError(f"{what}() of a non-numeric model array")

    def min(self):
        return self._reduce(min, "minimum")

    def max(self):
        return self._reduce(max, "maximum")

    def argmin(self):
        return self.v.index(self.min())

    def argmax(self):
        return self.v.index(self.max())

    def __repr__(self):
        return f"Arr({self.v})"

    def __bool__(self):
        if len(self.v) == 1:
            return bool(self.v[0])
        if not self.v:
            return False
        raise ModelFault("truth value of an array with more than one element "
                         "is ambiguous")

    def __eq__(self, o):
        return isinstance(o, Arr) and self.v == o.v

    def __hash__(self):
        return id(self)

    # -- element-wise logic
    def _zip(self, o):
        if isinstance(o, Arr):
            if len(o) != len(self):
                raise ModelFault("operands could not be broadcast together")
            return zip(self.v, o.v)
        return ((a, o) for a in self.v)

    def __invert__(self):
        if self.kind not in ("bool", None):
            raise MiniError("~ on a non-boolean model array")
        return Arr([not x for x in self.v], "bool")

    def __or__(self, o):
        return Arr([bool(a) or bool(b) for a, b in self._zip(o)], "bool")

    __ror__ = __or__

    def __and__(self, o):
        return Arr([bool(a) and bool(b) for a, b in self._zip(o)], "bool")

    __rand__ = __and__

    # -- indexing
    @staticmethod
    def _index_kind(k):
        if isinstance(k, Arr):
            if k.kind in ("bool", "int"):
                return k.kind
            if not k.v:
                return "int"
            raise MiniError("model array used as an index is neither bool "
                            "nor int")
        if isinstance(k, list):
            return Arr._index_kind(Arr(k))
        return None

    def __getitem__(self, k):
        if isinstance(k, bool):
            raise MiniError("bool scalar used as an index")
        if isinstance(k, int):
            try:
                return self.v[k]
            except IndexError:
                raise ModelFault(f"index {k} is out of bounds for size "
                                 f"{len(self.v)}")
        if isinstance(k, slice):
            return Arr(self.v[k], self.kind)
        ik = self._index_kind(k)
        kv = k.v if isinstance(k, Arr) else list(k)
        if ik == "bool":
            if len(kv) != len(self.v):
                raise ModelFault(
                    f"boolean index did not match indexed array: size is "
                    f"{len(self.v)} but the mask has {len(kv)} entries")
            return Arr([x for x, b in zip(self.v, kv) if b], self.kind)
        if ik == "int":
            out = []
            for j in kv:
                if not -len(self.v) <= j < len(self.v):
                    raise ModelFault(f"index {j} is out of bounds for size "
                                     f"{len(self.v)}")
                out.append(self.v[j])
            return Arr(out, self.kind)
        raise MiniError(f"unsupported index {k!r} on a model array")

    def __setitem__(self, k, val):
        if isinstance(k, int) and not isinstance(k, bool):
            if not -len(self.v) <= k < len(self.v):
                raise ModelFault(f"index {k} is out of bounds for size "
                                 f"{len(self.v)}")
            self.v[k] = val
            return
        if isinstance(k, slice):
            idx = list(range(*k.indices(len(self.v))))
        else:
            ik = self._index_kind(k)
            kv = k.v if isinstance(k, Arr) else list(k)
            if ik == "bool":
                if len(kv) != len(self.v):
                    raise ModelFault("boolean index did not match indexed "
                                     "array (assignment)")
                idx = [i for i, b in enumerate(kv) if b]
            elif ik == "int":
                idx = list(kv)
            else:
                raise MiniError(f"unsupported index {k!r} in assignment")
        if isinstance(val, (Arr, list, tuple)):
            vv = list(val)
            if len(vv) != len(idx):
                raise ModelFault(
                    f"cannot assign {len(vv)} values to {len(idx)} positions")
            for i, x in zip(idx, vv):
                self.v[i] = x
        else:
            for i in idx:
                self.v[i] = val


class Feat:
    """the data of one feature as a dataset hands it out"""

    def __init__(self, name, n, sliceable=True, boolmask=True):
        self.name = name
        self.n = n
        self._sliceable = sliceable
        self._boolmask = boolmask

    def __getattr__(self, item):
        if item == "__array__" and self.__dict__.get("_sliceable"):
            return lambda *a, **k: None
        raise AttributeError(item)

    def __len__(self):
        return self.n

    @property
    def shape(self):
        return (self.n, ("item-shape", self.name))

    @property
    def dtype(self):
        return ("dtype", self.name)

    def all_events(self):
        return [Ev(self.name, i) for i in range(self.n)]

    def __iter__(self):
        return iter(self.all_events())

    def __getitem__(self, k):
        full = Arr(self.all_events(), "ev")
        if isinstance(k, int) and not isinstance(k, bool):
            return full[k]
        if isinstance(k, slice):
            return full[k]
        if isinstance(k, (Arr, list)):
            if not self._sliceable:
                raise ModelFault(
                    f"feature '{self.name}' of this source cannot be indexed "
                    f"with an array (event-wise access only)")
            return full[k]
        raise MiniError(f"unsupported index {k!r} on feature data")


class Shape(tuple):
    """tuple that supports [1:] like ndarray.shape"""


def shape_of(x):
    s = x.shape
    return s


def bind_like(sig, impl, method=False):
    """stand-in for a repository callable: arguments are bound through the
    *real* signature (the FunctionDef `sig`), so positional and keyword
    calling styles both work; `impl` receives them by name"""
    a = sig.args
    params = [p.arg for p in a.posonlyargs + a.args]
    if method and params:
        params = params[1:]
    n_def = len(a.defaults)
    required = params[:len(params) - n_def] if n_def <= len(params) \
        else []
    kwonly = [p.arg for p in a.kwonlyargs]

    def standin(*args, **kwargs):
        if len(args) > len(params) and not a.vararg:
            raise ModelFault(f"too many positional arguments for "
                             f"{sig.name}")
        bound = dict(zip(params, args))
        extra = args[len(params):]
        for k, v in kwargs.items():
            if k in bound:
                raise ModelFault(f"{sig.name}() got multiple values for "
                                 f"argument '{k}'")
            if k not in params and k not in kwonly and not a.kwarg:
                raise ModelFault(f"{sig.name}() got an unexpected keyword "
                                 f"argument '{k}'")
            bound[k] = v
        for p in required:
            if p not in bound:
                raise ModelFault(f"{sig.name}() missing required argument "
                                 f"'{p}'")
        if extra:
            bound["_varargs"] = extra
        return impl(**bound)
    return standin


class _Func:
    """a repository function bound to an interpreter"""

    def __init__(self, mini, node, closure=None):
        self.mini = mini
        self.node = node
        self.closure = closure

    def __call__(self, *args, **kwargs):
        if isinstance(self.node, ast.FunctionDef) and "contextmanager" in {
                txt(d).split(".")[-1] for d in self.node.decorator_list}:
            return _GenContext(self, args, kwargs)
        return self.mini.call(self.node, args, kwargs, closure=self.closure)


class _GenContext:
    """context manager made from a generator function
    (``@contextlib.contextmanager``): the function runs up to its ``yield``
    on entry and is resumed on exit (the interpreter is recursive, so the
    generator runs in a helper thread that strictly alternates with the
    caller)"""

    def __init__(self, fn, args, kwargs):
        self.fn, self.args, self.kwargs = fn, args, kwargs

    def __enter__(self):
        import queue
        import threading
        self.to_caller = queue.Queue()
        self.to_gen = queue.Queue()

        def hook(v):
            self.to_caller.put(("yield", v))
            self.to_gen.get()

        def run():
            try:
                self.fn.mini.call(self.fn.node, self.args, self.kwargs,
                                  closure=self.fn.closure, cm_hook=hook)
                self.to_caller.put(("done", None))
            except BaseException as e:     # handed over to the caller
                self.to_caller.put(("error", e))
        self.thread = threading.Thread(target=run, daemon=True)
        self.thread.start()
        kind, v = self.to_caller.get()
        if kind == "error":
            raise v
        if kind == "done":
            raise ModelFault("generator of a context manager did not yield")
        return v

    def __exit__(self, *a):
        self.to_gen.put(None)
        kind, v = self.to_caller.get()
        self.thread.join()
        if kind == "error":
            raise v
        if kind == "yield":
            raise ModelFault("generator of a context manager yielded twice")


class ModuleNS:
    """a module of the repository used as a namespace (``common.f(...)``):
    names the harness models itself come from `overrides`, every other
    name is resolved by its definition in the parsed module (through an
    interpreter bound to that module)"""

    def __init__(self, mini, overrides=None, label="module"):
        self.__dict__["_mini"] = mini
        self.__dict__["_label"] = label
        self.__dict__.update(overrides or {})

    def __getattr__(self, item):
        if item.startswith("__"):
            raise AttributeError(item)
        g = self._mini.g
        if item in g:
            return g[item]
        raise MiniError(f"module `{self._label}` defines no `{item}`")


def _decorators(fn):
    return {txt(d).split(".")[-1].split("(")[0] for d in fn.decorator_list}


def _class_member(mini, cls, item, inst=None):
    """value of attribute `item` of the interpreted class `cls` (methods,
    static / class methods, properties, class-level constants); raises
    AttributeError when the class body does not define it"""
    found = None
    for st in cls.body:
        if isinstance(st, ast.FunctionDef) and st.name == item:
            found = st            # the last definition wins
        elif isinstance(st, ast.Assign) and any(
                isinstance(t, ast.Name) and t.id == item
                for t in st.targets):
            found = st
    if found is None:
        raise AttributeError(item)
    if isinstance(found, ast.Assign):
        return mini.expr(found.value, {}, set())
    deco = _decorators(found)
    if "staticmethod" in deco:
        return mini.bind(found)
    if "classmethod" in deco:
        owner = ClassModel(mini, cls)
        return lambda *a, **k: mini.call(found, (owner,) + a, k)
    if inst is None:
        return mini.bind(found)
    if "property" in deco or "cached_property" in deco:
        return mini.call(found, (inst,))
    if deco - {"abstractmethod"}:
        raise MiniError(f"decorator of `{cls.name}.{item}` is not part of "
                        f"the model")
    return lambda *a, **k: mini.call(found, (inst,) + a, k)


class ClassModel:
    """the interpreted class used as a namespace (``Cls.helper(...)``)"""

    def __init__(self, mini, cls):
        self.__dict__["_mini"] = mini
        self.__dict__["_cls"] = cls

    def __getattr__(self, item):
        if item.startswith("__"):
            raise AttributeError(item)
        try:
            return _class_member(self._mini, self._cls, item)
        except AttributeError:
            raise MiniError(f"class `{self._cls.name}` has no attribute "
                            f"`{item}` in the model")


class SelfModel:
    """an instance of the interpreted class: attributes given by the
    harness are model values, every other attribute – private helper
    methods, static methods, properties, class constants – is resolved in
    the class body and interpreted on demand.  Subclass it to add the
    dunder methods (``__getitem__``, ``__len__`` …) of the model."""

    def __init__(self, mini, cls, **attrs):
        self.__dict__["_mini"] = mini
        self.__dict__["_cls"] = cls
        self.__dict__.update(attrs)

    def __getattr__(self, item):
        if item.startswith("__"):
            raise AttributeError(item)
        try:
            return _class_member(self._mini, self._cls, item, inst=self)
        except AttributeError:
            pass
        # an instance attribute the constructor (or `reset`) initialises
        # with a plain value: the state of a freshly constructed object
        for mname in ("__init__", "reset"):
            for st in self._cls.body:
                if not (isinstance(st, ast.FunctionDef)
                        and st.name == mname):
                    continue
                for n in ast.walk(st):
                    if isinstance(n, ast.Assign) and any(
                            isinstance(t, ast.Attribute) and isinstance(
                                t.value, ast.Name) and t.value.id == "self"
                            and t.attr == item for t in n.targets):
                        try:
                            v = self._mini.expr(n.value, {}, set())
                        except (MiniError, ModelFault):
                            continue
                        self.__dict__[item] = v
                        return v
        raise MiniError(f"`{self._cls.name}` instance has no attribute "
                        f"`{item}` in the model")


BUILTINS = {
    "len": len, "sorted": sorted, "set": set, "list": list, "str": str,
    "int": int, "float": float, "range": range, "min": min, "max": max,
    "tuple": tuple, "dict": dict, "enumerate": enumerate, "zip": zip,
    "bool": bool, "round": round, "abs": abs, "hasattr": hasattr,
    "isinstance": isinstance, "any": any, "all": all, "sum": sum,
    "True": True, "False": False, "None": None, "reversed": reversed,
    "ValueError": ValueError, "OSError": OSError, "KeyError": KeyError,
    "IndexError": IndexError, "UserWarning": UserWarning,
    "DeprecationWarning": DeprecationWarning,
    "ModuleNotFoundError": ModuleNotFoundError,
    "NotImplementedError": NotImplementedError,
    "ResourceWarning": ResourceWarning, "RuntimeWarning": RuntimeWarning,
    "FutureWarning": FutureWarning, "Warning": Warning,
    "Exception": Exception, "BaseException": BaseException,
    "TypeError": TypeError, "OverflowError": OverflowError,
    "print": lambda *a, **k: None,
}


def _next(it, *default):
    """next(): generator expressions are materialised lists in the model,
    so a list stands for a fresh iterator over it"""
    if len(default) > 1:
        raise ModelFault("next expected at most 2 arguments")
    if isinstance(it, (list, tuple)):
        it = iter(it)
    try:
        return next(it)
    except StopIteration:
        if default:
            return default[0]
        raise ModelFault("next() on an exhausted iterator (StopIteration)")
    except TypeError:
        raise MiniError("next() of a non-iterator model value")


def _getattr(o, name, *default):
    try:
        return getattr(o, name)
    except (AttributeError, MiniError):
        if default:
            return default[0]
        raise ModelFault(f"object has no attribute '{name}'")


class _NullCM:
    """context manager that does nothing (contextlib.suppress of an
    exception the model never raises, nullcontext, closing)"""

    def __init__(self, value=None):
        self.value = value

    def __enter__(self):
        return self.value

    def __exit__(self, *a):
        return False


def _namedtuple(typename, field_names, *, rename=False, defaults=None,
                module=None):
    """named tuples are plain tuples with named fields: attribute access is
    index access, ordering is tuple ordering (the stdlib factory is a pure
    constructor of such a class)"""
    return collections.namedtuple(typename, field_names, rename=rename,
                                  defaults=defaults)


# further harmless builtins (pure; exception classes are only ever raised,
# which the interpreter turns into a ModelFault)
BUILTINS.update({
    "next": _next, "iter": iter, "divmod": divmod, "pow": pow, "map": map,
    "filter": filter, "slice": slice, "ord": ord, "chr": chr, "hex": hex,
    "bin": bin, "format": format, "callable": callable, "hash": hash,
    "complex": complex, "frozenset": frozenset, "bytes": bytes,
    "bytearray": bytearray, "repr": repr, "getattr": _getattr,
    "NotImplemented": NotImplemented, "Ellipsis": Ellipsis,
    "RuntimeError": RuntimeError, "IOError": IOError,
    "StopIteration": StopIteration, "AssertionError": AssertionError,
    "ZeroDivisionError": ZeroDivisionError,
    "FileNotFoundError": FileNotFoundError, "NameError": NameError,
    "ImportError": ImportError, "AttributeError": AttributeError,
    "UnicodeDecodeError": UnicodeDecodeError,
    "PermissionError": PermissionError, "LookupError": LookupError,
    "KeyboardInterrupt": KeyboardInterrupt, "SystemExit": SystemExit,
    "GeneratorExit": GeneratorExit, "TimeoutError": TimeoutError,
    "EOFError": EOFError, "MemoryError": MemoryError,
    "RecursionError": RecursionError, "UnicodeError": UnicodeError,
    "ConnectionError": ConnectionError, "BufferError": BufferError,
    "ArithmeticError": ArithmeticError, "FloatingPointError":
        FloatingPointError,
})

# standard-library names an interpreted module may use for plain data
BUILTINS.update({
    "namedtuple": _namedtuple,
    "contextlib": NS("contextlib", suppress=lambda *a: _NullCM(),
                     nullcontext=lambda v=None: _NullCM(v),
                     closing=lambda v: _NullCM(v)),
    "functools": NS("functools", partial=functools.partial,
                    reduce=functools.reduce),
    "partial": functools.partial,
    # pure helpers of the standard library (work on model values as they
    # work on real ones; nothing with side effects or unbounded iteration)
    "operator": NS("operator", **{k: getattr(operator, k) for k in (
        "itemgetter", "attrgetter", "methodcaller", "add", "sub", "mul",
        "truediv", "floordiv", "mod", "neg", "not_", "and_", "or_", "invert",
        "eq", "ne", "lt", "le", "gt", "ge", "getitem", "contains",
        "is_", "is_not", "index")}),
    "itemgetter": operator.itemgetter,
    "attrgetter": operator.attrgetter,
    "itertools": NS("itertools", product=itertools.product,
                    chain=itertools.chain, islice=itertools.islice,
                    zip_longest=itertools.zip_longest,
                    accumulate=itertools.accumulate,
                    combinations=itertools.combinations,
                    permutations=itertools.permutations,
                    starmap=itertools.starmap, groupby=itertools.groupby,
                    pairwise=getattr(itertools, "pairwise", None)),
    "math": NS("math", ceil=math.ceil, floor=math.floor, sqrt=math.sqrt,
               log=math.log, log2=math.log2, log10=math.log10, exp=math.exp,
               isnan=math.isnan, isinf=math.isinf, isfinite=math.isfinite,
               inf=math.inf, nan=math.nan, pi=math.pi, fabs=math.fabs,
               trunc=math.trunc, gcd=math.gcd),
    "collections": NS("collections", namedtuple=_namedtuple,
                      OrderedDict=dict),
})

_BIN = {ast.Add: operator.add, ast.Sub: operator.sub, ast.Mult: operator.mul,
        ast.Div: operator.truediv, ast.FloorDiv: operator.floordiv,
        ast.Mod: operator.mod, ast.Pow: operator.pow,
        ast.BitAnd: operator.and_, ast.BitOr: operator.or_,
        ast.BitXor: operator.xor}


class Mini:
    """interpreter for a small statement fragment of Python"""

    def __init__(self, globals_, max_steps=200000):
        self.g = dict(globals_)
        self.steps = 0
        self.max_steps = max_steps

    def bind(self, node, closure=None):
        return _Func(self, node, closure)

    def bind_module(self, tree):
        """Make the module-level definitions of the interpreted module
        available: functions are bound from the tree; simple assignments
        (``NAME = <expression>``, in source order) are evaluated when their
        value lies inside the interpreted fragment – literals, displays of
        literals, arithmetic on earlier constants.  Names the harness models
        itself keep their model value; anything that cannot be evaluated is
        left undefined (a later use fails closed)."""
        # names reach the module through its import statements: a
        # from-import of something the harness models is the same model
        # entry under the imported name (`from ..pkg import f` = pkg.f,
        # `from .. import pkg as p` / `import a.pkg as p` = pkg)
        for st in tree.body:
            if isinstance(st, ast.ImportFrom):
                last = (st.module or "").split(".")[-1]
                for a in st.names:
                    local = a.asname or a.name
                    if local in self.g:
                        continue
                    if last and last in self.g:
                        try:
                            self.g[local] = getattr(self.g[last], a.name)
                            continue
                        except (MiniError, AttributeError):
                            pass
                    if a.name in self.g:
                        self.g[local] = self.g[a.name]
            elif isinstance(st, ast.Import):
                for a in st.names:
                    last = a.name.split(".")[-1]
                    if a.asname and a.asname not in self.g \
                            and last in self.g:
                        self.g[a.asname] = self.g[last]
        for st in tree.body:
            if isinstance(st, ast.FunctionDef):
                self.g[st.name] = self.bind(st)
            elif isinstance(st, ast.ClassDef) and st.name not in self.g \
                    and any(txt(b).split(".")[-1] == "NamedTuple"
                            for b in st.bases):
                # class X(typing.NamedTuple): a: T; b: T = default
                fields, defaults = [], []
                plain = True
                for s in st.body:
                    if isinstance(s, ast.AnnAssign) and isinstance(
                            s.target, ast.Name):
                        fields.append(s.target.id)
                        if s.value is not None:
                            try:
                                defaults.append(self.expr(s.value, {}, set()))
                            except (MiniError, ModelFault):
                                plain = False
                        elif defaults:
                            plain = False
                    elif isinstance(s, ast.Expr) and isinstance(
                            s.value, ast.Constant):
                        continue        # docstring
                    else:
                        plain = False   # methods: not a plain record
                if plain and fields:
                    self.g[st.name] = collections.namedtuple(
                        st.name, fields, defaults=defaults or None)
        for st in tree.body:
            if isinstance(st, ast.Assign) and len(st.targets) == 1 \
                    and isinstance(st.targets[0], ast.Name):
                name, value = st.targets[0].id, st.value
            elif isinstance(st, ast.AnnAssign) and st.value is not None \
                    and isinstance(st.target, ast.Name):
                name, value = st.target.id, st.value
            else:
                continue
            if name in self.g:
                continue
            try:
                self.g[name] = self.expr(value, {}, set())
            except (MiniError, ModelFault):
                pass

    # ------------------------------------------------------------------
    def call(self, func, args=(), kwargs=None, closure=None, cm_hook=None):
        kwargs = dict(kwargs or {})
        a = func.args
        if a.vararg or a.kwarg:
            if not isinstance(func, ast.Lambda):
                pass
        env = {}
        params = [p.arg for p in a.posonlyargs + a.args]
        defaults = list(a.defaults)
        dmap = {}
        for p, d in zip(params[len(params) - len(defaults):], defaults):
            dmap[p] = d
        args = list(args)
        if len(args) > len(params) and not a.vararg:
            raise ModelFault(f"too many positional arguments for "
                             f"{getattr(func, 'name', 'lambda')}")
        for p, v in zip(params, args):
            env[p] = v
        if a.vararg:
            env[a.vararg.arg] = tuple(args[len(params):])
        for p in params[len(args):]:
            if p in kwargs:
                env[p] = kwargs.pop(p)
            elif p in dmap:
                env[p] = self.expr(dmap[p], {}, set())
            else:
                raise ModelFault(f"missing argument `{p}` in a call of "
                                 f"{getattr(func, 'name', 'lambda')}")
        for p, d in zip(a.kwonlyargs, a.kw_defaults):
            if p.arg in kwargs:
                env[p.arg] = kwargs.pop(p.arg)
            elif d is not None:
                env[p.arg] = self.expr(d, {}, set())
            else:
                raise ModelFault(f"missing keyword argument `{p.arg}`")
        if a.kwarg:
            env[a.kwarg.arg] = kwargs
        elif kwargs:
            raise ModelFault(f"unexpected keyword argument(s) "
                             f"{sorted(kwargs)} in a call of "
                             f"{getattr(func, 'name', 'lambda')}")
        if closure:
            for k, v in closure.items():
                env.setdefault(k, v)
        if isinstance(func, ast.Lambda):
            return self.expr(func.body, env, set(env))
        locals_ = set(env)
        is_gen = False
        for n in _walk_fn(func):
            if isinstance(n, ast.Name) and isinstance(n.ctx, ast.Store):
                locals_.add(n.id)
            elif isinstance(n, (ast.Yield, ast.YieldFrom)):
                is_gen = True
            elif isinstance(n, (ast.FunctionDef,)) and n is not func:
                locals_.add(n.name)
        env["__yields__"] = [] if is_gen else None
        if cm_hook is not None:
            env["__cm_hook__"] = cm_hook
        try:
            self.block(func.body, env, locals_)
            ret = None
        except _Return as r:
            ret = r.value
        if is_gen:
            return env["__yields__"]
        return ret

    # ------------------------------------------------------------------
    def block(self, stmts, env, loc):
        for s in stmts:
            self.stmt(s, env, loc)

    def _tick(self):
        self.steps += 1
        if self.steps > self.max_steps:
            raise MiniError("step budget of the symbolic evaluation exceeded")

    def stmt(self, s, env, loc):
        self._tick()
        if isinstance(s, ast.Expr):
            if isinstance(s.value, ast.Constant):
                return
            self.expr(s.value, env, loc)
        elif isinstance(s, ast.Assign):
            v = self.expr(s.value, env, loc)
            for t in s.targets:
                self.assign(t, v, env, loc)
        elif isinstance(s, ast.AnnAssign):
            if s.value is not None:
                self.assign(s.target, self.expr(s.value, env, loc), env, loc)
        elif isinstance(s, ast.AugAssign):
            op = _BIN.get(type(s.op))
            if op is None:
                raise MiniError(f"operator in `{txt(s)}`")
            load = _as_load(s.target)
            cur = self.expr(load, env, loc)
            self.assign(s.target, op(cur, self.expr(s.value, env, loc)),
                        env, loc)
        elif isinstance(s, ast.If):
            if self.truth(self.expr(s.test, env, loc), s.test):
                self.block(s.body, env, loc)
            else:
                self.block(s.orelse, env, loc)
        elif isinstance(s, ast.For):
            it = self.expr(s.iter, env, loc)
            try:
                items = _live_iter(it)
            except TypeError:
                raise MiniError(f"cannot iterate `{txt(s.iter)}` in the model")
            broke = False
            for x in items:
                self.assign(s.target, x, env, loc)
                try:
                    self.block(s.body, env, loc)
                except _Break:
                    broke = True
                    break
                except _Continue:
                    continue
            if not broke:
                self.block(s.orelse, env, loc)
        elif isinstance(s, ast.While):
            while self.truth(self.expr(s.test, env, loc), s.test):
                self._tick()
                try:
                    self.block(s.body, env, loc)
                except _Break:
                    break
                except _Continue:
                    continue
        elif isinstance(s, ast.With):
            cms = []
            for it in s.items:
                cm = self.expr(it.context_expr, env, loc)
                ent = getattr(cm, "__enter__", None)
                v = ent() if callable(ent) else cm
                cms.append(cm)
                if it.optional_vars is not None:
                    self.assign(it.optional_vars, v, env, loc)
            try:
                self.block(s.body, env, loc)
            finally:
                # contexts are left on every exit (return, break, fault)
                for cm in reversed(cms):
                    ex = getattr(cm, "__exit__", None)
                    if callable(ex):
                        ex(None, None, None)
        elif isinstance(s, ast.Try):
            # an exception of the interpreted program is a ModelFault; any
            # handler of the statement is taken to catch it (handlers are
            # not matched by type: fail closed for bare re-raise)
            try:
                try:
                    self.block(s.body, env, loc)
                except ModelFault as fault:
                    if not s.handlers:
                        raise
                    h = s.handlers[0]
                    if h.name:
                        env[h.name] = Opaque(f"exception({fault})")
                    self.block(h.body, env, loc)
                else:
                    self.block(s.orelse, env, loc)
            finally:
                self.block(s.finalbody, env, loc)
        elif isinstance(s, ast.Return):
            raise _Return(None if s.value is None
                          else self.expr(s.value, env, loc))
        elif isinstance(s, ast.Pass):
            return
        elif isinstance(s, ast.Break):
            raise _Break()
        elif isinstance(s, ast.Continue):
            raise _Continue()
        elif isinstance(s, ast.Raise):
            raise ModelFault(f"reaches `{' '.join(txt(s).split())[:90]}`")
        elif isinstance(s, ast.Assert):
            if not self.truth(self.expr(s.test, env, loc), s.test):
                raise ModelFault(f"assertion `{txt(s.test)}` fails")
        elif isinstance(s, ast.FunctionDef):
            env[s.name] = _Func(self, s, closure=env)
        elif isinstance(s, ast.Delete):
            for t in s.targets:
                if isinstance(t, ast.Subscript):
                    o = self.expr(t.value, env, loc)
                    del o[self.index(t.slice, env, loc)]
                elif isinstance(t, ast.Name):
                    env.pop(t.id, None)
                else:
                    raise MiniError(f"del target `{txt(t)}`")
        else:
            raise MiniError(f"statement kind {type(s).__name__} "
                            f"(`{txt(s).splitlines()[0][:60]}`)")

    def assign(self, t, v, env, loc):
        if isinstance(t, ast.Name):
            env[t.id] = v
        elif isinstance(t, (ast.Tuple, ast.List)):
            vs = list(v)
            if len(vs) != len(t.elts):
                raise ModelFault(f"cannot unpack {len(vs)} values into "
                                 f"`{txt(t)}`")
            for tt, vv in zip(t.elts, vs):
                self.assign(tt, vv, env, loc)
        elif isinstance(t, ast.Subscript):
            o = self.expr(t.value, env, loc)
            k = self.index(t.slice, env, loc)
            try:
                o[k] = v
            except (KeyError, TypeError) as e:
                raise ModelFault(f"`{txt(t)} = …` fails: {e!r}")
        elif isinstance(t, ast.Attribute):
            o = self.expr(t.value, env, loc)
            try:
                setattr(o, t.attr, v)
            except AttributeError:
                raise MiniError(f"cannot set `{txt(t)}` in the model")
        else:
            raise MiniError(f"assignment target `{txt(t)}`")

    def truth(self, v, node):
        try:
            return bool(v)
        except MiniError:
            raise MiniError(f"condition `{txt(node)}` has no truth value in "
                            f"the model")

    def index(self, sl, env, loc):
        if isinstance(sl, ast.Slice):
            return slice(
                None if sl.lower is None else self.expr(sl.lower, env, loc),
                None if sl.upper is None else self.expr(sl.upper, env, loc),
                None if sl.step is None else self.expr(sl.step, env, loc))
        if isinstance(sl, ast.Tuple):
            return tuple(self.index(e, env, loc) for e in sl.elts)
        return self.expr(sl, env, loc)

    # ------------------------------------------------------------------
    def expr(self, e, env, loc):
        self._tick()
        if isinstance(e, ast.Constant):
            return e.value
        if isinstance(e, ast.Name):
            if e.id in env:
                return env[e.id]
            if e.id in loc:
                raise ModelFault(f"local variable `{e.id}` is read before "
                                 f"it is assigned")
            if e.id in self.g:
                return self.g[e.id]
            if e.id in BUILTINS:
                return BUILTINS[e.id]
            raise MiniError(f"name `{e.id}` is not part of the model")
        if isinstance(e, ast.Attribute):
            o = self.expr(e.value, env, loc)
            try:
                return getattr(o, e.attr)
            except AttributeError:
                raise MiniError(f"model value for `{txt(e.value)}` has no "
                                f"attribute `{e.attr}`")
        if isinstance(e, ast.Subscript):
            o = self.expr(e.value, env, loc)
            k = self.index(e.slice, env, loc)
            try:
                return o[k]
            except KeyError:
                raise ModelFault(f"`{txt(e)}` raises KeyError({k!r})")
            except IndexError:
                raise ModelFault(f"`{txt(e)}` raises IndexError")
            except TypeError as ex:
                raise MiniError(f"`{txt(e)}`: {ex}")
        if isinstance(e, ast.Call):
            f = self.expr(e.func, env, loc)
            args = []
            for a in e.args:
                if isinstance(a, ast.Starred):
                    args += list(self.expr(a.value, env, loc))
                else:
                    args.append(self.expr(a, env, loc))
            kw = {}
            for k in e.keywords:
                if k.arg is None:
                    kw.update(self.expr(k.value, env, loc))
                else:
                    kw[k.arg] = self.expr(k.value, env, loc)
            if not callable(f):
                raise MiniError(f"`{txt(e.func)}` is not callable in the "
                                f"model")
            try:
                return f(*args, **kw)
            except (MiniError, ModelFault, _Return, _Break, _Continue):
                raise
            except TypeError as ex:
                raise MiniError(f"call `{txt(e)[:70]}` does not fit the "
                                f"model: {ex}")
        if isinstance(e, ast.BinOp):
            op = _BIN.get(type(e.op))
            if op is None:
                raise MiniError(f"operator in `{txt(e)}`")
            a = self.expr(e.left, env, loc)
            b = self.expr(e.right, env, loc)
            try:
                return op(a, b)
            except ZeroDivisionError:
                raise ModelFault(f"`{txt(e)}` divides by zero")
            except TypeError as ex:
                raise MiniError(f"`{txt(e)}`: {ex}")
        if isinstance(e, ast.UnaryOp):
            v = self.expr(e.operand, env, loc)
            if isinstance(e.op, ast.Not):
                return not self.truth(v, e.operand)
            if isinstance(e.op, ast.USub):
                return -v
            if isinstance(e.op, ast.UAdd):
                return +v
            if isinstance(e.op, ast.Invert):
                if isinstance(v, bool):
                    raise MiniError("~ on a Python bool")
                return ~v
        if isinstance(e, ast.BoolOp):
            last = None
            for v in e.values:
                last = self.expr(v, env, loc)
                t = self.truth(last, v)
                if isinstance(e.op, ast.And) and not t:
                    return last
                if isinstance(e.op, ast.Or) and t:
                    return last
            return last
        if isinstance(e, ast.Compare):
            left = self.expr(e.left, env, loc)
            for op, c in zip(e.ops, e.comparators):
                right = self.expr(c, env, loc)
                if not self.cmp(op, left, right, e):
                    return False
                left = right
            return True
        if isinstance(e, ast.IfExp):
            if self.truth(self.expr(e.test, env, loc), e.test):
                return self.expr(e.body, env, loc)
            return self.expr(e.orelse, env, loc)
        if isinstance(e, ast.Tuple):
            return tuple(self._elts(e.elts, env, loc))
        if isinstance(e, ast.List):
            return list(self._elts(e.elts, env, loc))
        if isinstance(e, ast.Set):
            return set(self._elts(e.elts, env, loc))
        if isinstance(e, ast.Dict):
            d = {}
            for k, v in zip(e.keys, e.values):
                if k is None:
                    d.update(self.expr(v, env, loc))
                else:
                    d[self.expr(k, env, loc)] = self.expr(v, env, loc)
            return d
        if isinstance(e, ast.JoinedStr):
            out = []
            for p in e.values:
                if isinstance(p, ast.Constant):
                    out.append(str(p.value))
                else:
                    v = self.expr(p.value, env, loc)
                    spec = ""
                    if p.format_spec is not None:
                        spec = self.expr(p.format_spec, env, loc)
                    try:
                        out.append(format(v, spec))
                    except (TypeError, ValueError):
                        out.append(str(v))
            return "".join(out)
        if isinstance(e, (ast.ListComp, ast.GeneratorExp, ast.SetComp)):
            res = []
            self._comp(e.generators, 0, dict(env), loc,
                       lambda en: res.append(self.expr(e.elt, en, loc)))
            return set(res) if isinstance(e, ast.SetComp) else res
        if isinstance(e, ast.DictComp):
            res = {}

            def put(en):
                res[self.expr(e.key, en, loc)] = self.expr(e.value, en, loc)
            self._comp(e.generators, 0, dict(env), loc, put)
            return res
        if isinstance(e, ast.Yield):
            if env.get("__yields__") is None:
                raise MiniError("yield outside a generator")
            v = None if e.value is None else self.expr(e.value, env, loc)
            if env.get("__cm_hook__") is not None:
                # generator of a @contextmanager: hand the value to the
                # `with` statement and wait until its body is done
                env["__cm_hook__"](v)
                return None
            env["__yields__"].append(snapshot(v))
            return None
        if isinstance(e, ast.YieldFrom):
            if env.get("__yields__") is None:
                raise MiniError("yield from outside a generator")
            try:
                items = list(self.expr(e.value, env, loc))
            except TypeError:
                raise MiniError(f"`{txt(e.value)}` is not iterable in the "
                                f"model")
            for v in items:
                env["__yields__"].append(snapshot(v))
            return None
        if isinstance(e, ast.Lambda):
            return _Func(self, e, closure=env)
        if isinstance(e, ast.Starred):
            raise MiniError("starred expression")
        raise MiniError(f"expression kind {type(e).__name__} (`{txt(e)}`)")

    def _elts(self, elts, env, loc):
        out = []
        for x in elts:
            if isinstance(x, ast.Starred):
                out += list(self.expr(x.value, env, loc))
            else:
                out.append(self.expr(x, env, loc))
        return out

    def _comp(self, gens, i, env, loc, emit):
        if i == len(gens):
            emit(env)
            return
        g = gens[i]
        for x in list(self.expr(g.iter, env, loc)):
            self.assign(g.target, x, env, loc | set(env))
            if all(self.truth(self.expr(c, env, loc), c) for c in g.ifs):
                self._comp(gens, i + 1, env, loc, emit)

    def cmp(self, op, a, b, node):
        try:
            if isinstance(op, ast.Eq):
                return a == b
            if isinstance(op, ast.NotEq):
                return a != b
            if isinstance(op, ast.Lt):
                return a < b
            if isinstance(op, ast.LtE):
                return a <= b
            if isinstance(op, ast.Gt):
                return a > b
            if isinstance(op, ast.GtE):
                return a >= b
            if isinstance(op, ast.Is):
                return a is b
            if isinstance(op, ast.IsNot):
                return a is not b
            if isinstance(op, ast.In):
                return a in b
            if isinstance(op, ast.NotIn):
                return a not in b
        except TypeError as ex:
            raise MiniError(f"comparison `{txt(node)}`: {ex}")
        raise MiniError(f"comparison operator in `{txt(node)}`")


def _live_iter(it):
    """iterate like CPython: a list is walked by position against its live
    length (so removing inside the loop skips elements); a dict / set must
    not change size"""
    if isinstance(it, list):
        def gen():
            i = 0
            while i < len(it):
                yield it[i]
                i += 1
        return gen()
    if isinstance(it, (dict, set)):
        def gen2():
            n = len(it)
            for x in list(it):
                if len(it) != n:
                    raise ModelFault("container changed size during "
                                     "iteration")
                yield x
            if len(it) != n:
                raise ModelFault("container changed size during iteration")
        return gen2()
    return iter(list(it))


def _walk_fn(func):
    """nodes of a function body without nested function bodies (the nested
    def node itself is yielded)"""
    stack = list(func.body)
    while stack:
        n = stack.pop()
        yield n
        if isinstance(n, (ast.FunctionDef, ast.Lambda, ast.ClassDef)):
            continue
        stack.extend(ast.iter_child_nodes(n))


def _as_load(t):
    c = ast.parse(txt(t), mode="eval").body
    return c


def snapshot(v):
    if isinstance(v, Arr):
        return v.copy()
    if isinstance(v, list):
        return list(v)
    if isinstance(v, dict):
        return {k: snapshot(x) for k, x in v.items()}
    return v


# ----------------------------------------------------------------------
# numpy model

def _np_where(a, *xy):
    if not isinstance(a, Arr):
        raise MiniError("np.where on a non-array model value")
    if xy:
        if len(xy) != 2:
            raise ModelFault("np.where takes one or three arguments")

        def item(v, i):
            if isinstance(v, Arr):
                if len(v) != len(a):
                    raise ModelFault("operands could not be broadcast "
                                     "together")
                return v.v[i]
            return v
        return Arr([item(xy[0], i) if c else item(xy[1], i)
                    for i, c in enumerate(a.v)], "ev")
    return (Arr([i for i, b in enumerate(a.v) if b], "int"),)


def _np_all(a):
    if isinstance(a, Arr):
        return all(bool(x) for x in a.v)
    return bool(a)


def _np_any(a):
    if isinstance(a, Arr):
        return any(bool(x) for x in a.v)
    return bool(a)


def _np_array(a, dtype=None, copy=True):
    if isinstance(a, Arr):
        return a.copy()
    if isinstance(a, Ev):
        return a
    if isinstance(a, Feat):
        return Arr(a.all_events(), "ev")
    if isinstance(a, (list, tuple)):
        if a and all(isinstance(x, (Arr, Feat)) for x in a):
            return Mat([x if isinstance(x, Arr) else Arr(x.all_events(), "ev")
                        for x in a], dtype=dtype)
        return Arr(a)
    raise MiniError(f"np.array of {type(a).__name__} in the model")


def _np_asarray(a, dtype=None, **k):
    """np.asarray hands an array back as it is (no copy)"""
    if isinstance(a, Arr):
        return a
    return _np_array(a, dtype=dtype)


class Mat:
    """list of equally long columns (np.array(list of 1-d arrays))"""

    def __init__(self, rows, transposed=False, dtype=None):
        self.rows = rows
        self.transposed = transposed
        self.dtype = dtype      # explicit dtype requested for the table
        lens = {len(r) for r in rows}
        if len(lens) > 1:
            raise ModelFault("inhomogeneous shape: the feature columns have "
                             f"different lengths {sorted(lens)}")

    def transpose(self):
        return Mat(self.rows, not self.transposed, self.dtype)

    @property
    def T(self):
        return self.transpose()


def _np_ones(n, dtype=None):
    if isinstance(n, tuple):
        n = n[0]
    return Arr([True] * n if dtype in (bool, "bool") else [1] * n,
               "bool" if dtype in (bool, "bool") else "int")


def _np_zeros(shape, dtype=None):
    n = shape[0] if isinstance(shape, tuple) else shape
    if dtype in (bool, "bool"):
        return Arr([False] * n, "bool")
    return Arr([None] * n, "ev")


def _np_copy(a):
    if isinstance(a, Arr):
        return a.copy()
    raise MiniError("np.copy of a non-array model value")


def _np_arange(n):
    return Arr(list(range(n)), "int")


def _np_isnan(a):
    return Arr([isinstance(x, Ev) and x.tag == "nan" for x in a], "bool")


def _np_isinf(a):
    return Arr([isinstance(x, Ev) and x.tag == "inf" for x in a], "bool")


def numpy_model(**extra):
    d = dict(isnan=_np_isnan, isinf=_np_isinf,
             isfinite=lambda a: ~(_np_isnan(a) | _np_isinf(a)),
             where=_np_where, all=_np_all, any=_np_any, array=_np_array,
             asarray=_np_asarray, ones=_np_ones, zeros=_np_zeros,
             copy=_np_copy,
             arange=_np_arange, min=lambda a: min(list(a)),
             max=lambda a: max(list(a)), flatnonzero=lambda a: _np_where(a)[0],
             count_nonzero=lambda a: sum(1 for x in a if x),
             sum=lambda a: sum(1 if x is True else (0 if x is False else x)
                               for x in a),
             logical_not=lambda a: ~a, invert=lambda a: ~a,
             repeat=lambda a, *k, **kw: a, bool_=bool, uint8="uint8",
             float64="float64", float32="float32", float16="float16",
             double="float64", single="float32", half="float16",
             longdouble="longdouble", int64="int64", int32="int32",
             int16="int16", uint16="uint16", uint32="uint32",
             nan=Ev("const", 0, "nan"))
    d.update(extra)
    return NS("np", **d)
