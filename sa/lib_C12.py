"""Helpers of C12 (round 7).

In-place writes to parameters: a forward may-alias dataflow over the statement
CFG.  The state maps a local name to the set of parameters of the function
the name may be *the same array as* (the parameter itself, a basic-slice /
reshape / asarray / transpose view of it, a typed memoryview of it ...); each
entry is definite ("D": the expression is the parameter's buffer whenever the
documented input is an ndarray) or possible ("P": element of a container, a
subscript whose index cannot be classified).  A write site (augmented
assignment, subscript / attribute store, ``out=``, in-place method, in-place
numpy function, call of a function of the same module that writes its own
parameter) whose base may alias a parameter is a finding when the alias is
definite, an unclassifiable shape otherwise.
"""
from __future__ import annotations

import ast
import re

from .cfg import CFG
from .core import AnalysisError, FUNC_TYPES, last_attr, txt, walk

# value-returning numpy functions that hand back their (first) argument or a
# view of it when that is an ndarray
NP_PASS = {"asarray", "asanyarray", "atleast_1d", "atleast_2d", "atleast_3d",
           "ravel", "reshape", "squeeze", "transpose", "swapaxes", "moveaxis",
           "expand_dims", "ascontiguousarray", "asfortranarray", "require",
           "real", "imag", "flip", "fliplr", "flipud", "rollaxis", "diagonal",
           "asfarray", "array_split", "split", "hsplit", "vsplit",
           "nan_to_num_", "view"}
# ndarray methods / attributes that return a view
VIEW_METHODS = {"reshape", "ravel", "view", "squeeze", "transpose",
                "swapaxes", "diagonal", "newbyteorder", "__array__"}
VIEW_ATTRS = {"T", "real", "imag", "flat", "base", "mT"}
# in-place methods of ndarray / list / dict / set
INPLACE_METHODS = {"sort", "fill", "resize", "partition", "put", "itemset",
                   "setfield", "setflags", "append", "extend", "insert",
                   "remove", "clear", "reverse", "update", "setdefault",
                   "popitem", "add", "discard"}
# numpy functions writing into their first argument
NP_INPLACE_FIRST = {"put", "place", "putmask", "copyto", "fill_diagonal",
                    "shuffle", "put_along_axis", "at"}
UFUNC_BINARY = {"add", "subtract", "multiply", "divide", "true_divide",
                "floor_divide", "power", "maximum", "minimum", "fmax", "fmin",
                "mod", "remainder", "logical_and", "logical_or", "hypot",
                "arctan2", "bitwise_and", "bitwise_or", "float_power"}
UFUNC_UNARY = {"exp", "exp2", "expm1", "log", "log10", "log2", "log1p",
               "sqrt", "square", "abs", "absolute", "fabs", "negative",
               "sign", "floor", "ceil", "rint", "trunc", "sin", "cos", "tan",
               "reciprocal", "logical_not", "invert", "cumsum", "cumprod",
               "round", "around"}
SCALAR_WORDS = re.compile(r"\b(float|int|bool|str|string|callable|function|"
                          r"number|scalar|path|dict|None)\b", re.I)
ARRAY_WORDS = re.compile(r"(array|ndarray|array_like|list|sequence|tuple|"
                         r"iterable)", re.I)

D, P = "D", "P"


def doc_param_types(func):
    """{parameter: type text} from a numpydoc ``Parameters`` section"""
    doc = ast.get_docstring(func) or ""
    out = {}
    m = re.search(r"^\s*Parameters\s*\n\s*-{3,}\s*\n", doc, re.M)
    if not m:
        return out
    for line in doc[m.end():].split("\n"):
        if re.match(r"^\s*-{3,}\s*$", line):
            break
        mm = re.match(r"^(\w[\w, ]*?)\s*:\s*(.*)$", line)
        if mm and not line.startswith((" ", "\t")):
            for nm in mm.group(1).split(","):
                out[nm.strip()] = mm.group(2).strip()
    # a following section header line (`Returns`) is a bare word: harmless
    return out


def array_params(func, ds_params=()):
    """parameters that may be handed an array (anything not documented or
    defaulted as a scalar / dataset / callable)"""
    a = func.args
    plain = [p.arg for p in a.posonlyargs + a.args + a.kwonlyargs]
    defaults = {}
    pos = a.posonlyargs + a.args
    for p, d in zip(pos[len(pos) - len(a.defaults):], a.defaults):
        defaults[p.arg] = d
    for p, d in zip(a.kwonlyargs, a.kw_defaults):
        if d is not None:
            defaults[p.arg] = d
    docs = doc_param_types(func)
    out = []
    for i, p in enumerate(plain):
        if i == 0 and p in ("self", "cls"):
            continue
        if p in ds_params:
            continue
        t = docs.get(p)
        if t is not None:
            if ARRAY_WORDS.search(t):
                out.append(p)
            elif SCALAR_WORDS.search(t) or "RTDCBase" in t:
                continue
            else:
                out.append(p)
            continue
        d = defaults.get(p)
        if isinstance(d, ast.Constant) and d.value is not None:
            continue        # numeric / bool / str default: a scalar option
        out.append(p)
    return out


def base_name(node):
    """Name at the bottom of a chain of subscripts / attributes"""
    while isinstance(node, (ast.Subscript, ast.Attribute, ast.Starred)):
        node = node.value
    return node if isinstance(node, ast.Name) else None


def _basic_index(idx):
    """True: basic indexing (view); False: certainly advanced (copy); None:
    cannot tell"""
    if isinstance(idx, ast.Slice):
        return True
    if isinstance(idx, ast.Constant):
        if idx.value is None or idx.value is Ellipsis or isinstance(
                idx.value, int):
            return True
        return None
    if isinstance(idx, ast.UnaryOp) and isinstance(idx.op, ast.USub) \
            and isinstance(idx.operand, ast.Constant):
        return True
    if isinstance(idx, ast.Attribute) and idx.attr == "newaxis":
        return True
    if isinstance(idx, ast.Tuple):
        kinds = [_basic_index(e) for e in idx.elts]
        if any(k is False for k in kinds):
            return False
        if all(k is True for k in kinds):
            return True
        return None
    if isinstance(idx, (ast.Compare, ast.BoolOp, ast.List, ast.ListComp)):
        return False
    if isinstance(idx, ast.UnaryOp) and isinstance(idx.op, (ast.Invert,
                                                            ast.Not)):
        return False
    if isinstance(idx, ast.BinOp) and isinstance(idx.op, (ast.BitOr,
                                                          ast.BitAnd,
                                                          ast.BitXor)):
        return False
    if isinstance(idx, ast.Call) and last_attr(idx) in (
            "where", "nonzero", "argsort", "isnan", "isinf", "isfinite",
            "logical_not", "logical_and", "logical_or", "flatnonzero",
            "argwhere", "array", "asarray", "arange", "choice", "zeros",
            "ones", "zeros_like", "ones_like", "get_bad_vals"):
        return False
    return None


class ModuleFuncs:
    """functions of one module, by the names they are called with, and their
    summaries (parameters written in place, parameters returned)"""

    def __init__(self, repo, rel, ds_params=()):
        self.rel = rel
        self.ds_params = tuple(ds_params)
        self.funcs = dict(repo.all_functions(rel))
        self.by_name = {}
        for q, f in self.funcs.items():
            self.by_name.setdefault(q.rsplit(".", 1)[-1], []).append(f)
        self._summary = {}
        self._busy = set()

    def resolve(self, call):
        """the function of this module a call refers to (by plain name,
        ``self.name`` / ``cls.name`` / ``Class.name``), or None"""
        f = call.func
        name = None
        if isinstance(f, ast.Name):
            name = f.id
        elif isinstance(f, ast.Attribute) and isinstance(f.value, ast.Name):
            if f.value.id in ("self", "cls") or any(
                    q.startswith(f.value.id + ".") for q in self.funcs):
                name = f.attr
        if name is None:
            return None
        cands = self.by_name.get(name, [])
        return cands[0] if len(cands) == 1 else None

    def summary(self, func):
        """(writes: {param: (node, how)}, returns: {param: certainty})"""
        k = id(func)
        if k in self._summary:
            return self._summary[k]
        if k in self._busy:
            return {}, {}
        self._busy.add(k)
        try:
            res = analyse(func, self)
        finally:
            self._busy.discard(k)
        s = ({p: (n, how) for n, p, c, how in res.sites if c == D},
             res.returned)
        self._summary[k] = s
        return s


def bind_args(func, call):
    """{parameter name: argument expression} of a call of a parsed function
    (bound methods: `self` is skipped)"""
    a = func.args
    params = [p.arg for p in a.posonlyargs + a.args]
    if params and params[0] in ("self", "cls") and isinstance(
            call.func, ast.Attribute):
        params = params[1:]
    out = {}
    for p, e in zip(params, call.args):
        if isinstance(e, ast.Starred):
            break
        out[p] = e
    allp = set(params) | {p.arg for p in a.kwonlyargs}
    for kw in call.keywords:
        if kw.arg in allp:
            out[kw.arg] = kw.value
    return out


class Result:
    def __init__(self):
        self.sites = []        # (node, param, certainty, how)
        self.returned = {}     # param -> certainty
        self.n_writes = 0      # write sites looked at
        self.has_value_return = False


def _join(a, b):
    """union of two alias maps {param: certainty}; D wins"""
    if not b:
        return a
    out = dict(a)
    for p, c in b.items():
        if out.get(p) != D:
            out[p] = c if p not in out or c == D else out[p]
    return out


def _weaken(m):
    return {p: P for p in m}


def analyse(func, mod, params=None):
    """in-place writes of `func` that reach one of its array parameters"""
    if params is None:
        params = array_params(func, mod.ds_params)
    res = Result()
    cfg = CFG(func)
    init = {p: {p: D} for p in params}

    def alias(e, st):
        """{param: certainty} the value of expression e may share its buffer
        with"""
        if e is None:
            return {}
        if isinstance(e, ast.Name):
            return st.get(e.id, {})
        if isinstance(e, ast.Starred):
            return alias(e.value, st)
        if isinstance(e, ast.NamedExpr):
            return alias(e.value, st)
        if isinstance(e, ast.Attribute):
            if e.attr in VIEW_ATTRS:
                return alias(e.value, st)
            return {}
        if isinstance(e, ast.Subscript):
            inner = alias(e.value, st)
            if not inner:
                return {}
            k = _basic_index(e.slice)
            if k is True:
                return inner
            if k is False:
                return {}
            return _weaken(inner)
        if isinstance(e, ast.IfExp):
            return _join(alias(e.body, st), alias(e.orelse, st))
        if isinstance(e, ast.BoolOp):
            out = {}
            for v in e.values:
                out = _join(out, alias(v, st))
            return out
        if isinstance(e, (ast.Tuple, ast.List, ast.Set)):
            out = {}
            for v in e.elts:
                out = _join(out, _weaken(alias(v, st)))
            return out
        if isinstance(e, ast.Call):
            la = last_attr(e)
            f = e.func
            target = mod.resolve(e)
            if target is not None and not _decorated_unknown(target):
                _, ret = mod.summary(target)
                out = {}
                bound = bind_args(target, e)
                for p, c in ret.items():
                    inner = alias(bound.get(p), st)
                    out = _join(out, inner if c == D else _weaken(inner))
                return out
            if isinstance(f, ast.Attribute):
                recv = alias(f.value, st)
                if recv:
                    if la in VIEW_METHODS:
                        return recv
                    if la == "astype":
                        cp = [k for k in e.keywords if k.arg == "copy"]
                        if cp and txt(cp[0].value) == "False":
                            return _weaken(recv)
                        return {}
                    return {}
                if la in NP_PASS and e.args:
                    return alias(e.args[0], st)
                if la == "array" and e.args:
                    cp = [k for k in e.keywords if k.arg == "copy"]
                    if cp and txt(cp[0].value) in ("False", "None"):
                        return alias(e.args[0], st)
                    return {}
            return {}
        return {}

    def bind(target, val, st, value_node=None):
        if isinstance(target, ast.Name):
            st[target.id] = val
        elif isinstance(target, (ast.Tuple, ast.List)):
            if isinstance(value_node, (ast.Tuple, ast.List)) and len(
                    value_node.elts) == len(target.elts) and not any(
                    isinstance(x, ast.Starred)
                    for x in list(target.elts) + list(value_node.elts)):
                # evaluated before any element is bound
                vals = [alias(v, st) for v in value_node.elts]
                for t, v, vn in zip(target.elts, vals, value_node.elts):
                    bind(t, v, st, vn)
            else:
                for t in target.elts:
                    bind(t.value if isinstance(t, ast.Starred) else t,
                         _weaken(val), st)
        # subscript / attribute targets bind no name

    def transfer(node, st):
        st = dict(st)
        s = node.ast
        if s is None:
            return st
        if node.kind == "for":
            it = alias(s.iter, st)
            bind(s.target, _weaken(it), st)
            return st
        if node.kind in ("with_enter",):
            for item in s.items:
                if item.optional_vars is not None:
                    bind(item.optional_vars, {}, st)
            return st
        if node.kind == "handler" or isinstance(s, ast.ExceptHandler):
            if getattr(s, "name", None):
                st[s.name] = {}
            return st
        if node.kind != "stmt":
            return st
        if isinstance(s, ast.Assign):
            val = alias(s.value, st)
            for t in s.targets:
                bind(t, val, st, s.value)
        elif isinstance(s, ast.AnnAssign) and s.value is not None:
            bind(s.target, alias(s.value, st), st, s.value)
        elif isinstance(s, FUNC_TYPES + (ast.ClassDef,)):
            st[s.name] = {}
        elif isinstance(s, (ast.Import, ast.ImportFrom)):
            for al in s.names:
                st[(al.asname or al.name).split(".")[0]] = {}
        elif isinstance(s, ast.Delete):
            for t in s.targets:
                if isinstance(t, ast.Name):
                    st.pop(t.id, None)
        # AugAssign on a name keeps the object (arrays) – aliases unchanged
        return st

    # fixed point
    IN = {cfg.entry: init}
    work = [cfg.entry]
    n_iter = 0
    while work:
        n_iter += 1
        if n_iter > 20000:
            raise AnalysisError(f"{func.name}: alias dataflow does not settle")
        nid = work.pop()
        out = transfer(cfg.nodes[nid], IN.get(nid, {}))
        for (succ, _lab) in cfg.succ[nid]:
            old = IN.get(succ)
            if old is None:
                IN[succ] = {k: dict(v) for k, v in out.items()}
                work.append(succ)
                continue
            changed = False
            for k, v in out.items():
                j = _join(old.get(k, {}), v)
                if j != old.get(k, {}):
                    old[k] = j
                    changed = True
            if changed:
                work.append(succ)

    def exprs_of(node):
        """expressions evaluated at a CFG node (not the nested blocks)"""
        s = node.ast
        if s is None:
            return []
        if node.kind == "test":
            return [s.test]
        if node.kind == "for":
            return [s.iter]
        if node.kind == "with_enter":
            return [i.context_expr for i in s.items]
        if node.kind != "stmt" or isinstance(s, FUNC_TYPES + (ast.ClassDef,)):
            return []
        return [s]

    def record(node, amap, how):
        res.n_writes += 1
        for p, c in amap.items():
            res.sites.append((node, p, c, how))

    seen = set()
    for node in cfg.nodes:
        if node.id not in IN or node.ast is None:
            continue
        st = IN[node.id]
        for root in exprs_of(node):
            key = (id(root), node.kind)
            if key in seen:       # finally / with copies
                continue
            seen.add(key)
            if isinstance(root, ast.AugAssign):
                b = base_name(root.target)
                if b is not None:
                    record(root, alias_of_target(root.target, st, alias),
                           f"augmented assignment `{txt(root)[:60]}`")
            elif isinstance(root, (ast.Assign, ast.AnnAssign, ast.Delete)):
                tgs = root.targets if not isinstance(
                    root, ast.AnnAssign) else [root.target]
                flat = []
                for t in tgs:
                    flat += list(t.elts) if isinstance(
                        t, (ast.Tuple, ast.List)) else [t]
                for t in flat:
                    if isinstance(t, (ast.Subscript, ast.Attribute)):
                        record(root, alias_of_target(t, st, alias),
                               f"store `{txt(t)[:50]} = ...`")
            if isinstance(root, ast.Return) and root.value is not None:
                res.has_value_return = True
                vals = root.value.elts if isinstance(
                    root.value, ast.Tuple) else [root.value]
                for v in vals:
                    am = alias(v, st)
                    if len(vals) > 1:
                        am = _weaken(am)
                    res.returned = _join(res.returned, am)
            for c in walk(root):
                if not isinstance(c, ast.Call):
                    continue
                la = last_attr(c)
                f = c.func
                for kw in c.keywords:
                    if kw.arg == "out":
                        outs = kw.value.elts if isinstance(
                            kw.value, (ast.Tuple, ast.List)) else [kw.value]
                        for o in outs:
                            record(c, alias(o, st),
                                   f"`out=` of `{txt(c)[:50]}`")
                if isinstance(f, ast.Attribute):
                    recv = alias(f.value, st)
                    is_np = isinstance(f.value, ast.Name) and f.value.id in (
                        "np", "numpy") or txt(f.value) in ("np.random",)
                    if la in INPLACE_METHODS and not is_np:
                        record(c, recv, f"in-place method `.{la}()`")
                    elif la == "byteswap" and any(
                            txt(a) == "True" for a in list(c.args) + [
                                k.value for k in c.keywords]):
                        record(c, recv, "in-place `.byteswap(True)`")
                    if la in NP_INPLACE_FIRST and c.args and (
                            is_np or txt(f.value).startswith("np.")):
                        record(c, alias(c.args[0], st),
                               f"in-place numpy function `{txt(f)}`")
                    if is_np and la in UFUNC_BINARY and len(c.args) >= 3:
                        record(c, alias(c.args[2], st),
                               f"positional out of `{txt(f)}`")
                    if is_np and la in UFUNC_UNARY and len(c.args) >= 2 \
                            and la not in ("round", "around", "cumsum",
                                           "cumprod"):
                        record(c, alias(c.args[1], st),
                               f"positional out of `{txt(f)}`")
                target = mod.resolve(c)
                if target is not None and target is not func:
                    writes, _ = mod.summary(target)
                    bound = bind_args(target, c)
                    for p, (wn, how) in writes.items():
                        if p in bound:
                            am = alias(bound[p], st)
                            if am:
                                record(c, am,
                                       f"`{target.name}` writes its "
                                       f"parameter `{p}` ({how})")
    return res


def alias_of_target(t, st, alias):
    """aliases of the object a store through target `t` writes into"""
    if isinstance(t, ast.Name):
        return st.get(t.id, {})
    if isinstance(t, ast.Subscript):
        return alias(t.value, st)
    if isinstance(t, ast.Attribute):
        return alias(t.value, st)
    return {}


def _decorated_unknown(func):
    """a decorator may replace the function: its summary is not the summary
    of the name (cached / wrapped estimators) – treated as an opaque call"""
    return bool(func.decorator_list) and not all(
        txt(d) in ("staticmethod", "classmethod") for d in func.decorator_list)
