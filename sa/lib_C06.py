"""Finite-model evaluation of ``AncillaryFeature`` (C06).

``AncillaryFeature`` (feat_anc_core/ancillary_feature.py) and ``obj2bytes``
(util.py) are loaded from their *syntax trees* into the analyser's
interpreter (:mod:`sa.lib_C04`) and evaluated on model datasets: a dict-like
object with feature data tokens, a configuration of nested dicts and a
settable requirement function.  ``hashlib.md5`` is modelled by an object that
concatenates what it is fed (an injective "digest" of the byte stream).
Nothing of dclab is imported or executed; a name that is not modelled is an
``AnalysisError``.
"""
from __future__ import annotations

from . import lib_C04 as L
from .core import AnalysisError
from .lib_C17 import DType, MD5, _install_class_state

AF = "dclab/rtdc_dataset/feat_anc_core/ancillary_feature.py"
UT = "dclab/util.py"


class FeatData:
    """model feature array: `content` is what ``tobytes()`` yields; all
    features of one dataset have the same length.  ``str()`` abbreviates
    like numpy does (lossy on purpose)."""

    _strict_attrs = True     # a missing attribute is an AttributeError

    class _Flags:
        _strict_attrs = True

        def __init__(self):
            self.writeable = False
            self.c_contiguous = True
            self.f_contiguous = True
            self.owndata = False

        def __getitem__(self, k):
            return getattr(self, k.lower())

    def __init__(self, content: bytes, shape=None):
        self.content = bytes(content)
        self.flags = FeatData._Flags()
        self.base = None
        self.shape = (len(content),) if shape is None else tuple(shape)
        self.dtype = DType("|u1")
        self.size = len(content)
        self.ndim = len(self.shape)
        self.nbytes = len(content)

    def edit_in_place(self, content):
        """model of ``a[...] = ...`` on the underlying buffer: same object,
        same shape, other content"""
        assert len(content) == len(self.content)
        self.content = bytes(content)

    def tobytes(self, *a, **k):
        return self.content

    def __array__(self, *a, **k):
        return self

    def __len__(self):
        return self.shape[0]

    def __getitem__(self, idx):
        if self.ndim != 1:
            raise AnalysisError("indexing of a 2-D model array is not "
                                "modelled")
        r = self.content[idx]
        return FeatData(r if isinstance(r, bytes) else bytes([r]))

    def __str__(self):
        return f"[{self.content[0]} ... {self.content[-1]}]"

    __repr__ = __str__

    def view(self, *a, **k):
        return self

    def flatten(self):
        return self

    def ravel(self):
        return self

    def copy(self):
        return FeatData(self.content)

    def setflags(self, write=None, **k):
        if write is not None:
            self.flags.writeable = bool(write)


class SizeArr:
    """model ndarray for the size correction of computed features: a list
    of floats, resizable in place, with a write flag"""
    _strict_attrs = True

    def __init__(self, values, writeable=True):
        self.values = [float(v) for v in values]
        self.flags = FeatData._Flags()
        self.flags.writeable = writeable
        self.dtype = DType("<f8")
        self.ndim = 1

    @property
    def shape(self):
        return (len(self.values),)

    @property
    def size(self):
        return len(self.values)

    def __len__(self):
        return len(self.values)

    def resize(self, n, refcheck=True):
        if isinstance(n, tuple):
            n = n[0]
        self.values = (self.values + [0.0] * n)[:n]

    def __getitem__(self, k):
        r = self.values[k]
        return SizeArr(r) if isinstance(r, list) else r

    def __setitem__(self, k, v):
        if not self.flags.writeable:
            raise L.ModelFault("ValueError", "assignment destination is "
                               "read-only", None)
        if isinstance(k, slice):
            idx = range(*k.indices(len(self.values)))
            for i in idx:
                self.values[i] = float(v)
        else:
            self.values[k] = float(v)

    def setflags(self, write=None, **k):
        if write is not None:
            self.flags.writeable = bool(write)

    def copy(self):
        return SizeArr(self.values)

    def tobytes(self, *a, **k):
        return repr(self.values).encode()

    def __repr__(self):
        return f"SizeArr({self.values})"


class DS:
    """model dataset"""
    _strict_attrs = True     # a missing attribute is an AttributeError

    def __init__(self, feats, config, n=4, ancillaries=None, ident="ds-1"):
        self.feats = dict(feats)
        self.config = config
        self.n = n
        self._ancillaries = dict(ancillaries or {})
        self._events = {}
        self._usertemp = {}
        self.identifier = ident
        self.title = "model"
        self.format = "dict"
        self.path = "model.rtdc"
        self.hash = "datasethash-" + ident
        self.reads = []

    def __contains__(self, k):
        return k in self.feats

    def __getitem__(self, k):
        self.reads.append(k)
        if k not in self.feats:
            raise L.ModelFault("KeyError", k, None)
        return self.feats[k]

    def __len__(self):
        return self.n

    @property
    def features(self):
        return sorted(self.feats)

    @property
    def features_innate(self):
        return sorted(self.feats)

    @property
    def features_loaded(self):
        return sorted(self.feats)


def _np_array(a, *r, dtype=None, copy=True, **k):
    if isinstance(a, SizeArr):
        return a.copy()
    if isinstance(a, (list, tuple)) and all(
            isinstance(x, (int, float)) for x in a):
        return SizeArr(a)
    return a


def _number(o):
    return isinstance(o, (int, float, complex)) and not isinstance(o, bool) \
        or isinstance(o, bool)


class Model:
    """one registry of ancillary features (class-level state is fresh per
    Model)"""

    def __init__(self, repo):
        _install_class_state()
        from .lib_C03 import _install_walrus
        _install_walrus()
        from .lib_common import extras
        self.it = L.Interp(repo)
        never = L.ModelType("never", lambda o: False)
        uext = {
            **extras(L),
            "hashlib": L.namespace("hashlib", md5=MD5, sha1=MD5,
                                   sha256=MD5),
            "numbers": L.namespace("numbers", Number=L.ModelType(
                "Number", _number), Integral=L.ModelType(
                "Integral", lambda o: isinstance(o, int))),
            "pathlib": L.namespace("pathlib", Path=never, PurePath=never),
            "np": L.namespace("np", ndarray=L.ModelType(
                "ndarray", lambda o: isinstance(o, FeatData)),
                generic=never),
            "h5py": L.namespace("h5py", Dataset=never, Group=never,
                                File=never),
            "Configuration": never, "ConfigurationDict": never,
            "RTDCBase": L.ModelType("RTDCBase",
                                    lambda o: isinstance(o, DS)),
        }
        self.uenv = self.it.env(UT, uext)
        try:
            o2b = self.uenv.lookup("obj2bytes")
        except AnalysisError:
            raise
        self.obj2bytes = o2b
        ext = {
            **extras(L),
            "hashlib": L.namespace("hashlib", md5=MD5, sha1=MD5,
                                   sha256=MD5),
            "warnings": L.namespace("warnings", warn=lambda *a, **k: None),
            "np": L.namespace(
                "np", ndarray=L.ModelType(
                    "ndarray", lambda o: isinstance(o, (FeatData, SizeArr))),
                array=_np_array, asarray=lambda a, *r, **k: a,
                nan=float("nan"), float64=float),
            "obj2bytes": o2b,
            "dfn": L.namespace("dfn", check_feature_shape=lambda *a: None),
        }
        self.env = self.it.env(AF, ext)
        self.cls = self.env.lookup("AncillaryFeature")

    def new(self, *a, **k):
        r = L.run(lambda: self.cls(*a, **k))
        if r[0] != "ok":
            raise AnalysisError(f"AncillaryFeature(...) cannot be evaluated: "
                                f"{r}")
        return r[1]

    def call(self, inst, name, *a, **k):
        return L.run(lambda: L.lookup_attr(self.it, inst, name, None)(
            *a, **k))

    def static(self, name, *a, **k):
        return L.run(lambda: L.lookup_attr(self.it, self.cls, name, None)(
            *a, **k))


# ----------------------------------------------------------------------
# RTDCBase.__getitem__ / __contains__ / _get_ancillary_feature_data /
# _get_basin_feature_data / features_basin, evaluated from the source on a
# model dataset whose recipes are AncillaryFeature objects of the model above

CORE = "dclab/rtdc_dataset/core.py"


class MBasin:
    """model basin"""
    _strict_attrs = True

    def __init__(self, basin_type, feats, available=True, label="b",
                 transient=0, transient_kind="OSError"):
        self.transient = transient          # failing accesses still to come
        self.transient_kind = transient_kind
        self.basin_type = basin_type
        self.basin_format = "hdf5"
        self._feats = dict(feats)
        self.available = available
        self.label = label
        self.served = []
        self.name = label
        self.key = label
        self.mapping = "same"

    @property
    def features(self):
        # the declared list, whether or not the basin can be opened
        return sorted(self._feats)

    def is_available(self):
        return self.available

    def get_feature_data(self, feat):
        if not self.available:
            raise L.ModelRaise(L.ExcValue("BasinNotAvailableError",
                                          (self.label,)))
        if self.transient > 0:
            # e.g. a failing range request of a remote basin
            self.transient -= 1
            raise L.ModelRaise(L.ExcValue(self.transient_kind,
                                          ("connection reset",)))
        self.served.append(feat)
        return self._feats[feat]

    def __repr__(self):
        return f"<basin {self.label}>"


class CoreModel(Model):
    """a dataset object of the parsed class RTDCBase (constructor skipped:
    the attributes the access path reads are set directly)"""

    def __init__(self, repo):
        super().__init__(repo)
        from .lib_common import extras
        ident = lambda f: f     # noqa: E731
        ext = {
            **extras(L),
            "abc": L.namespace("abc", ABC=L.PyBase("ABC", {}),
                               abstractmethod=ident),
            "warnings": L.namespace("warnings", warn=self._warn),
            "traceback": L.namespace("traceback",
                                     format_exc=lambda *a: "traceback"),
            "AncillaryFeature": self.cls,
            "feat_basin": L.namespace(
                "feat_basin",
                BasinNotAvailableError=L.ExcClass("BasinNotAvailableError")),
            "FeatureShouldExistButNotFoundWarning": L.ExcClass(
                "FeatureShouldExistButNotFoundWarning"),
            "Literal": _Subscriptable(), "Dict": _Subscriptable(),
            "List": _Subscriptable(), "Tuple": _Subscriptable(),
            "Optional": _Subscriptable(), "Union": _Subscriptable(),
            "np": L.namespace("np", ndarray=L.ModelType(
                "ndarray", lambda o: isinstance(o, FeatData))),
        }
        self.cenv = self.it.env(CORE, ext)
        self.base = self.cenv.lookup("RTDCBase")
        self.warned = []

    def _warn(self, *a, **k):
        self.warned.append(a)

    def dataset(self, events, config, usertemp=None, basins=()):
        obj = L.AstObject(self.base)
        at = obj._attrs
        at["_events"] = dict(events)
        at["_usertemp"] = dict(usertemp or {})
        at["_ancillaries"] = {}
        at["config"] = config
        at["_basins"] = list(basins)
        at["_basins_features"] = None
        at["_enable_basins"] = True
        at["_length"] = None
        at["path"] = "model.rtdc"
        at["title"] = "model"
        at["format"] = "dict"
        at["_identifier"] = "mm-model"
        at["_local_basins_allowed"] = True
        at["_feature_candidates"] = []
        return obj

    def getitem(self, ds, feat):
        return L.run(lambda: L.lookup_attr(self.it, ds, "__getitem__",
                                           None)(feat))

    def contains(self, ds, feat):
        return L.run(lambda: L.lookup_attr(self.it, ds, "__contains__",
                                           None)(feat))


class _Subscriptable:
    def __getitem__(self, k):
        return self


# ----------------------------------------------------------------------
# the scenario dispatch of the Young's modulus recipe (af_emodulus.py)

AFE = "dclab/rtdc_dataset/feat_anc_core/af_emodulus.py"
VISC = "dclab/features/emodulus/viscosity.py"


def module_value(it, env, rel, name):
    """value of the module-level `name` of file `rel` after running the
    module's top-level assignments and loops in order (imports, function
    and class definitions are skipped)"""
    import ast
    frame = L.Frame(env, {})
    tree = it.repo.tree(rel)
    for st in tree.body:
        if isinstance(st, (ast.Assign, ast.AnnAssign, ast.AugAssign,
                           ast.For, ast.If)):
            try:
                it.stmt(st, frame)
            except AnalysisError:
                # a statement that needs something un-modelled: only a
                # problem if the wanted name depends on it
                continue
        if name in frame.loc and isinstance(st, (ast.Assign, ast.AnnAssign)):
            tg = st.targets if isinstance(st, ast.Assign) else [st.target]
            if any(isinstance(t, ast.Name) and t.id == name for t in tg):
                pass
    if name not in frame.loc:
        raise AnalysisError(f"{rel}: module-level `{name}` cannot be "
                            "evaluated")
    return frame.loc[name]


class EmodDispatchModel:
    """`compute_emodulus` loaded from its syntax tree; the two computing
    functions are stand-ins that record which scenario was chosen"""

    def __init__(self, repo):
        from .lib_C03 import _install_walrus
        from .lib_common import extras
        _install_walrus()
        self.it = L.Interp(repo)
        venv = self.it.env(VISC, {**extras(L), "np": L.namespace("np")})
        self.known_media = list(module_value(self.it, venv, VISC,
                                             "KNOWN_MEDIA"))
        if len(self.known_media) < 4 or not all(
                isinstance(x, str) for x in self.known_media):
            raise AnalysisError("KNOWN_MEDIA could not be folded")
        self.calls = []
        visc = L.namespace("viscosity", KNOWN_MEDIA=self.known_media)
        emod = L.namespace("emodulus", viscosity=visc)

        def known(mm, temperature):
            self.calls.append(("known media", temperature))
            return ("emodulus", "known media", temperature)

        def visc_only(mm):
            self.calls.append(("viscosity only",))
            return ("emodulus", "viscosity only")
        ext = {
            **extras(L),
            "warnings": L.namespace("warnings", warn=lambda *a, **k: None),
            "features": L.namespace("features", emodulus=emod),
            "compute_emodulus_known_media": known,
            "compute_emodulus_visc_only": visc_only,
            "DeprecationWarning": L.ExcClass("DeprecationWarning"),
        }
        self.env = self.it.env(AFE, ext)
        self.func = self.env.lookup("compute_emodulus")

    def run(self, calccfg, has_temp):
        feats = {"area_um": FeatData(b"\x01\x01\x01\x01"),
                 "deform": FeatData(b"\x02\x02\x02\x02")}
        if has_temp:
            feats["temp"] = FeatData(b"\x17\x17\x17\x17")
        ds = DS(feats, {"calculation": dict(calccfg),
                        "setup": {"channel width": 20.0, "flow rate": 0.04},
                        "imaging": {"pixel size": 0.34}})
        self.calls = []
        return L.run(lambda: self.func(ds)), ds
