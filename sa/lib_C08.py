"""Model of the part of h5py / hdf5plugin that ``copier.py`` and
``task_condense.py`` use (for the finite-model evaluation of C08).

Datasets are element maps ``position -> value`` of rank 1 or 2 with a
creation property list (chunks, filters, fletcher32), attributes and a
``FILL`` sentinel for never-written elements.  Semantics that matter for the
copy routine are modelled after h5py (confirmed at run time while writing the
rule): chunk shape must not exceed the data shape, ``iter_chunks`` needs a
chunked dataset and yields one tuple of slices per chunk (clipped to the
shape), ``h5o.copy`` copies data, layout, filters and attributes and refuses an
existing name, fixed-length strings truncate, a file opened read-only refuses
every mutation.
"""
from __future__ import annotations

import itertools

from .core import AnalysisError
from .lib_C04 import ModelFault, ModelType, namespace

FILL = "<never written>"
ZSTD = 32015


class DType:
    _strict_attrs = True

    def __init__(self, kind, size=None, itemsize=None):
        self.kind = kind
        self.size = size
        #: bytes per element
        self.itemsize = itemsize if itemsize is not None else (
            size if kind == "S" and size else
            {"f": size or 8, "i": 8, "u": 1, "O": 8, "V": 16}.get(kind, 8))
        # numpy type character: float32 'f', float64 'd'
        if kind == "f" and size == 4:
            self.char = "f"
        else:
            self.char = {"f": "d", "i": "l"}.get(kind, kind)

    def __eq__(self, o):
        return isinstance(o, DType) and (self.kind, self.size) == (
            o.kind, o.size)

    def __hash__(self):
        return hash((self.kind, self.size))

    def __repr__(self):
        return f"{self.kind}{self.size or ''}"


def as_dtype(d):
    if isinstance(d, DType):
        return d
    if isinstance(d, str) and d[:1] == "S" and d[1:].isdigit():
        return DType("S", int(d[1:]))
    if d is float:
        return DType("f")
    if d is int:
        return DType("i")
    raise AnalysisError(f"h5 model: dtype {d!r} not modelled")


def conv(v, dt):
    """store value `v` in an element of type `dt`"""
    if dt.kind == "S":
        if isinstance(v, str):
            v = v.encode()
        if not isinstance(v, bytes):
            raise ModelFault("TypeError", f"cannot store {v!r} as string")
        return v[:dt.size]
    return v


class H5Data:
    """result of reading a selection: shape + flat element list"""
    _strict_attrs = True

    def __init__(self, shape, flat, dtype):
        self.shape = tuple(shape)
        self.flat = list(flat)
        self.dtype = dtype

    def astype(self, dtype, *a, **k):
        dt = as_dtype(dtype)
        return H5Data(self.shape, [conv(v, dt) for v in self.flat], dt)

    def __len__(self):
        return self.shape[0] if self.shape else 0

    def __iter__(self):
        if len(self.shape) != 1:
            raise AnalysisError("h5 model: iteration over n-d selection")
        return iter(self.flat)

    def __getitem__(self, idx):
        if len(self.shape) == 1 and isinstance(idx, slice):
            f = self.flat[idx]
            return H5Data((len(f),), f, self.dtype)
        if len(self.shape) == 1 and isinstance(idx, int):
            return self.flat[idx]
        raise AnalysisError("h5 model: index into a selection")


class Plist:
    _strict_attrs = True

    def __init__(self, ds):
        self.ds = ds

    def get_filter_by_id(self, fid):
        return self.ds.filters.get(fid)

    def get_nfilters(self):
        return len(self.ds.filters)


class H5Id:
    _strict_attrs = True

    def __init__(self, obj):
        self.obj = obj

    def get_create_plist(self):
        if not isinstance(self.obj, H5Dataset):
            raise ModelFault("AttributeError", "GroupID has no dataset "
                             "creation property list")
        return Plist(self.obj)


class Attrs(dict):
    def __init__(self, owner, *a):
        super().__init__(*a)
        self.owner = owner

    def _w(self):
        self.owner._check_writable()

    def __setitem__(self, k, v):
        self._w()
        super().__setitem__(k, v)

    def update(self, *a, **k):
        self._w()
        super().update(*a, **k)

    def __delitem__(self, k):
        self._w()
        super().__delitem__(k)

    def pop(self, *a):
        self._w()
        return super().pop(*a)

    def create(self, name, data, **k):
        self[name] = data

    def modify(self, name, value):
        self[name] = value


class H5Obj:
    _strict_attrs = True

    def __init__(self, parent, name):
        self.parent = parent
        self.basename = name
        self.attrs = Attrs(self)

    @property
    def file(self):
        o = self
        while o.parent is not None:
            o = o.parent
        return o

    @property
    def name(self):
        if self.parent is None:
            return "/"
        p = self.parent.name
        return (p if p.endswith("/") else p + "/") + self.basename

    @property
    def id(self):
        return H5Id(self)

    def _check_writable(self):
        f = self.file
        if f.readonly:
            f.write_attempts.append(self.name)
            raise ModelFault("OSError", f"attempt to modify {self.name} of "
                             f"the file opened read-only ({f.label})")

    def __repr__(self):
        return f"<HDF5 {type(self).__name__[2:].lower()} {self.name!r} " \
               f"({self.file.label})>"

    def __str__(self):
        return repr(self)


def _norm(idx, shape):
    """index -> tuple of ranges per dimension"""
    if not isinstance(idx, tuple):
        idx = (idx,)
    if any(i is Ellipsis for i in idx):
        k = idx.index(Ellipsis)
        idx = idx[:k] + (slice(None),) * (len(shape) - len(idx) + 1) \
            + idx[k + 1:]
    if len(idx) > len(shape):
        raise ModelFault("IndexError", f"too many indices ({len(idx)}) for a "
                         f"dataset of rank {len(shape)}")
    idx = idx + (slice(None),) * (len(shape) - len(idx))
    out = []
    for i, n in zip(idx, shape):
        if isinstance(i, slice):
            out.append(range(*i.indices(n)))
        elif isinstance(i, int) and not isinstance(i, bool):
            if not -n <= i < n:
                raise ModelFault("IndexError", f"index {i} out of range "
                                 f"(0-{n - 1})")
            out.append(i % n)
        else:
            raise AnalysisError(f"h5 model: index {i!r} not modelled")
    return out


class H5Dataset(H5Obj):
    def __init__(self, parent, name, shape, dtype, chunks=None, filters=None,
                 fletcher32=False, data=None):
        super().__init__(parent, name)
        self.shape = tuple(shape)
        self.dtype = as_dtype(dtype)
        self.chunks = None if chunks is None else tuple(chunks)
        self.filters = dict(filters or {})
        self.fletcher32 = fletcher32
        self.elems = {}
        pos = list(itertools.product(*[range(n) for n in self.shape]))
        if data is None:
            data = [FILL] * len(pos)
        if len(data) != len(pos):
            raise AnalysisError("h5 model: data do not match the shape")
        for p, v in zip(pos, data):
            self.elems[p] = v if v is FILL else conv(v, self.dtype)

    # -- reading
    @property
    def size(self):
        n = 1
        for s in self.shape:
            n *= s
        return n

    @property
    def ndim(self):
        return len(self.shape)

    def flat(self):
        return [self.elems[p] for p in sorted(self.elems)]

    def __len__(self):
        if not self.shape:
            raise ModelFault("TypeError", "Attempt to take len() of scalar "
                             "dataset")
        return self.shape[0]

    def __iter__(self):
        if len(self.shape) != 1:
            raise AnalysisError("h5 model: iteration over n-d dataset")
        return iter(self.flat())

    def _select(self, idx):
        dims = _norm(idx, self.shape)
        shape = tuple(len(d) for d in dims if isinstance(d, range))
        axes = [d if isinstance(d, range) else [d] for d in dims]
        return shape, list(itertools.product(*axes))

    def __getitem__(self, idx):
        shape, pos = self._select(idx)
        vals = [self.elems[p] for p in pos]
        if not shape:
            return vals[0]
        return H5Data(shape, vals, self.dtype)

    def __setitem__(self, idx, val):
        self._check_writable()
        shape, pos = self._select(idx)
        if isinstance(val, H5Data):
            vals = val.flat
            if len(vals) != len(pos):
                raise ModelFault("TypeError", f"Can't broadcast "
                                 f"{val.shape} -> {shape}")
        elif isinstance(val, (list, tuple)) and len(val) == len(pos) \
                and len(shape) == 1:
            vals = list(val)
        elif isinstance(val, (H5Dataset,)):
            raise AnalysisError("h5 model: dataset assigned to selection")
        else:
            vals = [val] * len(pos)
        for p, v in zip(pos, vals):
            self.elems[p] = v if v is FILL else conv(v, self.dtype)

    def iter_chunks(self, sel=None):
        if self.chunks is None:
            raise ModelFault("TypeError", "Chunked dataset required")
        per_dim = []
        for n, c in zip(self.shape, self.chunks):
            per_dim.append([slice(a, min(a + c, n), 1)
                            for a in range(0, n, c)])
        return list(itertools.product(*per_dim))

    def astype(self, *a, **k):
        raise AnalysisError("h5 model: Dataset.astype not modelled")

    def resize(self, *a, **k):
        self._check_writable()
        raise AnalysisError("h5 model: resize not modelled")

    # -- comparison (specification side)
    def content(self):
        return (self.shape, self.flat())


class H5Group(H5Obj):
    def __init__(self, parent, name):
        super().__init__(parent, name)
        self.members = {}

    def _walk(self, path, create=False):
        obj = self
        parts = [p for p in path.split("/") if p]
        for i, p in enumerate(parts):
            if not isinstance(obj, H5Group):
                raise ModelFault("KeyError", f"{path!r}: not a group")
            if p not in obj.members:
                raise ModelFault("KeyError", f"Unable to open object "
                                 f"(object '{p}' doesn't exist)")
            obj = obj.members[p]
        return obj

    def __getitem__(self, path):
        if not isinstance(path, str):
            raise ModelFault("TypeError", f"group key must be a string, "
                             f"not {type(path).__name__}")
        return self._walk(path)

    def __contains__(self, path):
        try:
            self._walk(path)
            return True
        except ModelFault:
            return False

    def get(self, path, default=None):
        return self._walk(path) if path in self else default

    def keys(self):
        return list(self.members.keys())

    def values(self):
        return list(self.members.values())

    def items(self):
        return list(self.members.items())

    def __iter__(self):
        return iter(sorted(self.members))

    def __len__(self):
        return len(self.members)

    def __setitem__(self, name, obj):
        self._check_writable()
        if name in self.members:
            raise ModelFault("OSError", f"Unable to create link (name "
                             f"{name!r} already exists)")
        if not isinstance(obj, H5Obj):
            raise AnalysisError("h5 model: group[name] = data not modelled")
        self.members[name] = obj          # hard link

    def __delitem__(self, name):
        self._check_writable()
        if name not in self.members:
            raise ModelFault("KeyError", f"Couldn't delete link ({name!r} "
                             f"doesn't exist)")
        del self.members[name]

    def require_group(self, name):
        if name in self.members:
            g = self.members[name]
            if not isinstance(g, H5Group):
                raise ModelFault("TypeError", f"Incompatible object (Dataset)"
                                 f" already exists at {name!r}")
            return g
        return self.create_group(name)

    def create_group(self, name):
        self._check_writable()
        if name in self.members:
            raise ModelFault("ValueError", f"Unable to create group (name "
                             f"{name!r} already exists)")
        g = H5Group(self, name)
        self.members[name] = g
        return g

    def create_dataset(self, name, shape=None, dtype=None, data=None,
                       chunks=None, fletcher32=False, compression=None,
                       compression_opts=None, maxshape=None, **kw):
        self._check_writable()
        if kw:
            raise AnalysisError(f"h5 model: create_dataset({sorted(kw)})")
        if name in self.members:
            raise ModelFault("ValueError", f"Unable to create dataset (name "
                             f"{name!r} already exists)")
        flat = None
        if data is not None:
            if isinstance(data, H5Data):
                flat, dshape, ddt = data.flat, data.shape, data.dtype
            else:
                raise AnalysisError("h5 model: create_dataset(data=…) of "
                                    f"{type(data).__name__}")
            shape = dshape if shape is None else shape
            dtype = ddt if dtype is None else dtype
        if shape is None or dtype is None:
            raise ModelFault("TypeError", "One of data, shape or dtype must "
                             "be specified")
        if isinstance(shape, int):
            shape = (shape,)
        shape = tuple(shape)
        if chunks is True:
            chunks = None
            auto = True
        else:
            auto = False
        if chunks is not None:
            chunks = tuple(chunks)
            if len(chunks) != len(shape):
                raise ModelFault("ValueError", "Chunk shape must have the "
                                 "rank of the dataset")
            if any(c > s for c, s in zip(chunks, shape)) and maxshape is None:
                raise ModelFault("ValueError", f"Chunk shape must not be "
                                 f"greater than data shape in any dimension. "
                                 f"{chunks} is not compatible with {shape}")
            if any(c <= 0 for c in chunks):
                raise ModelFault("ValueError", "Chunk dimensions must be "
                                 "positive")
        filters = {}
        if compression is not None:
            if compression != ZSTD:
                raise AnalysisError(f"h5 model: filter {compression!r}")
            filters[ZSTD] = (1, tuple(compression_opts or ()),
                             b"Zstandard compression")
        if (filters or fletcher32 or auto) and chunks is None:
            # h5py guesses a chunk shape (filters need a chunked layout)
            chunks = tuple(max(1, s) for s in shape)
        ds = H5Dataset(self, name, shape, dtype, chunks, filters, fletcher32,
                       flat)
        self.members[name] = ds
        return ds


class H5File(H5Group):
    def __init__(self, label, readonly=False):
        super().__init__(None, "")
        self.label = label
        self.readonly = False
        self.write_attempts = []
        self._ro = readonly
        self.filename = label

    def seal(self):
        self.readonly = self._ro

    def __enter__(self):
        return self

    def __exit__(self, *a):
        return False


def clone(obj, parent, name):
    """verbatim copy (H5Ocopy): data, layout, filters, attributes"""
    if isinstance(obj, H5Dataset):
        d = H5Dataset(parent, name, obj.shape, obj.dtype, obj.chunks,
                      obj.filters, obj.fletcher32, obj.flat())
        dict.update(d.attrs, obj.attrs)
        return d
    g = H5Group(parent, name)
    dict.update(g.attrs, obj.attrs)
    for k, v in obj.members.items():
        g.members[k] = clone(v, g, k)
    return g


def h5o_copy(src_loc, src_name, dst_loc, dst_name, copypl=None, lcpl=None):
    if copypl is not None or lcpl is not None:
        raise AnalysisError("h5 model: h5o.copy with property lists")
    for x, w in ((src_loc, "src_loc"), (dst_loc, "dst_loc")):
        if not isinstance(x, H5Id):
            raise ModelFault("TypeError", f"h5o.copy: {w} must be an "
                             f"ObjectID, got {type(x).__name__}")
    for x, w in ((src_name, "src_name"), (dst_name, "dst_name")):
        if not isinstance(x, bytes):
            raise ModelFault("TypeError", f"h5o.copy: {w} must be bytes, "
                             f"got {type(x).__name__}")
    sgrp, dgrp = src_loc.obj, dst_loc.obj
    if not isinstance(sgrp, H5Group) or not isinstance(dgrp, H5Group):
        raise ModelFault("TypeError", "h5o.copy: locations must be groups")
    dgrp._check_writable()
    sname, dname = src_name.decode(), dst_name.decode()
    if sname not in sgrp.members:
        raise ModelFault("KeyError", f"h5o.copy: source object {sname!r} "
                         f"doesn't exist")
    if dname in dgrp.members:
        raise ModelFault("RuntimeError", "Unable to copy object (destination "
                         "object already exists)")
    dgrp.members[dname] = clone(sgrp.members[sname], dgrp, dname)


def zstd(clevel=3, **k):
    return {"compression": ZSTD, "compression_opts": (clevel,)}


def h5py_namespace():
    return namespace(
        "h5py",
        Dataset=ModelType("h5py.Dataset", lambda o: isinstance(o, H5Dataset)),
        Group=ModelType("h5py.Group", lambda o: isinstance(o, H5Group)),
        File=ModelType("h5py.File", lambda o: isinstance(o, H5File)),
        h5o=namespace("h5py.h5o", copy=h5o_copy),
    )


def hdf5plugin_namespace():
    return namespace("hdf5plugin", Zstd=zstd)


def dump(obj):
    """hashable structural description (for fixpoint comparison)"""
    if isinstance(obj, H5Dataset):
        return ("D", obj.shape, repr(obj.dtype), obj.chunks,
                tuple(sorted(obj.filters.items())), obj.fletcher32,
                tuple(map(repr, obj.flat())),
                tuple(sorted((k, repr(v)) for k, v in obj.attrs.items())))
    return ("G", tuple(sorted((k, repr(v)) for k, v in obj.attrs.items())),
            tuple((k, dump(v)) for k, v in sorted(obj.members.items())))
