"""Helpers shared by the basin rules (C14, C07).

* `Mini` – a tiny evaluator for the closed expressions the rules have to fold
  (string methods on class names, comparison / membership / identity tests over
  a handful of symbolic names).  Anything else raises AnalysisError.
* `fold_basin_classes` – the table ``format -> (class, basin_type)`` folded from
  the direct subclasses of ``Basin`` (what ``get_basin_classes`` sees).
* `class_index` – name -> ClassDef of every class of the package whose source
  mentions one of the given words (cheap pre-filter before parsing).
* path conditions / edge-guard reachability on the statement CFG.
"""
from __future__ import annotations

import ast

from .cfg import branch_facts
from .core import AnalysisError, ancestors, const_str, dotted, txt, walk

PKG = "dclab/"
CORE = "dclab/rtdc_dataset/core.py"
FB = "dclab/rtdc_dataset/feat_basin.py"
H5BASE = "dclab/rtdc_dataset/fmt_hdf5/base.py"
H5BASIN = "dclab/rtdc_dataset/fmt_hdf5/basin.py"
HTTP = "dclab/rtdc_dataset/fmt_http.py"
S3 = "dclab/rtdc_dataset/fmt_s3.py"
DCORBASIN = "dclab/rtdc_dataset/fmt_dcor/basin.py"
DCORBASE = "dclab/rtdc_dataset/fmt_dcor/base.py"
FDICT = "dclab/rtdc_dataset/fmt_dict.py"
WRITER = "dclab/rtdc_dataset/writer.py"
EXPORT = "dclab/rtdc_dataset/export.py"
COPIER = "dclab/rtdc_dataset/copier.py"

BASIN_TYPES = ("internal", "file", "remote")


class Unknown(Exception):
    pass


STR_METHODS = {"split", "rsplit", "lower", "upper", "strip", "startswith",
               "endswith", "replace", "__contains__", "__eq__", "__ne__",
               "find", "rfind", "index", "count", "casefold", "lstrip",
               "rstrip", "removeprefix", "removesuffix", "partition",
               "rpartition"}
OPERATOR_FUNCS = {"eq": lambda a, b: a == b, "ne": lambda a, b: a != b,
                  "contains": lambda a, b: b in a}


class Raises(Unknown):
    """the evaluated expression raises at run time (e.g. TypeError of
    ``str.startswith(x, None)``) – a fact about the code, not a limit of
    the evaluator"""


class Unordered(Unknown):
    """the expression turns a set into a sequence: the order is undefined"""


class USet(frozenset):
    """a set value produced by the evaluated expression (iteration order is
    not defined – only sorted() may turn it into a sequence)"""


class Model:
    """object with attributes for the evaluator (e.g. a basin with a type)"""

    def __init__(self, **kw):
        self.__dict__.update(kw)


class Mini:
    """Evaluate a closed expression.  `env` maps normalised source text
    (``txt(node)``) to Python values; look-ups go through it first."""

    def _comprehension(self, e):
        """-> list of element values (in generator order)"""
        out = []

        def rec(gens, env):
            if not gens:
                out.append(Mini(env).ev(e.elt))
                return
            g = gens[0]
            it = Mini(env).ev(g.iter)
            if isinstance(it, USet) and isinstance(
                    e, (ast.ListComp, ast.GeneratorExp)):
                raise Unordered(txt(g.iter))
            if not isinstance(it, (list, tuple, set, frozenset, str)):
                raise Unknown(txt(g.iter))
            names = [x.id for x in ast.walk(g.target)
                     if isinstance(x, ast.Name)]
            if not isinstance(g.target, ast.Name) and not (
                    isinstance(g.target, ast.Tuple) and all(
                        isinstance(x, ast.Name) for x in g.target.elts)):
                raise Unknown(txt(g.target))
            for v in it:
                env2 = dict(env)
                if isinstance(g.target, ast.Name):
                    env2[g.target.id] = v
                else:
                    env2.update(dict(zip(names, v)))
                if all(Mini(env2).ev(c) for c in g.ifs):
                    rec(gens[1:], env2)
        rec(list(e.generators), self.env)
        return out

    def _collection_call(self, e):
        """sorted / set / list / tuple / reversed / frozenset"""
        fn = dotted(e.func)
        args = [self.ev(a) for a in e.args]
        kw = {k.arg: self.ev(k.value) for k in e.keywords}
        if None in kw or len(args) > 1 or (fn != "sorted" and kw):
            raise Unknown(txt(e))
        src = args[0] if args else []
        if not isinstance(src, (list, tuple, set, frozenset, str)):
            raise Unknown(txt(e))
        if fn in ("set", "frozenset"):
            return USet(src)
        if fn == "sorted":
            if set(kw) - {"key", "reverse"}:
                raise Unknown(txt(e))
            return sorted(src, **kw)
        if isinstance(src, USet):
            raise Unordered(txt(e))
        if fn == "reversed":
            return list(reversed(src))
        return list(src) if fn == "list" else tuple(src)

    def __init__(self, env):
        self.env = dict(env)

    def ev(self, e):
        key = txt(e)
        if key in self.env:
            return self.env[key]
        if isinstance(e, ast.Constant):
            return e.value
        if isinstance(e, (ast.List, ast.Tuple, ast.Set)):
            vals = [self.ev(x) for x in e.elts]
            return vals if isinstance(e, ast.List) else (
                tuple(vals) if isinstance(e, ast.Tuple) else set(vals))
        if isinstance(e, ast.BoolOp):
            if isinstance(e.op, ast.And):
                v = True
                for x in e.values:
                    v = self.ev(x)
                    if not v:
                        return v
                return v
            v = False
            for x in e.values:
                v = self.ev(x)
                if v:
                    return v
            return v
        if isinstance(e, ast.UnaryOp) and isinstance(e.op, ast.Not):
            return not self.ev(e.operand)
        if isinstance(e, ast.IfExp):
            return self.ev(e.body) if self.ev(e.test) else self.ev(e.orelse)
        if isinstance(e, ast.Compare):
            left = self.ev(e.left)
            for op, c in zip(e.ops, e.comparators):
                right = self.ev(c)
                if isinstance(op, ast.Eq):
                    r = left == right
                elif isinstance(op, ast.NotEq):
                    r = left != right
                elif isinstance(op, ast.Is):
                    r = left is right
                elif isinstance(op, ast.IsNot):
                    r = left is not right
                elif isinstance(op, (ast.In, ast.NotIn)):
                    try:
                        r = left in right
                    except TypeError as exc:
                        raise Raises(f"{txt(e)} raises "
                                     f"{type(exc).__name__}")
                    if isinstance(op, ast.NotIn):
                        r = not r
                else:
                    raise Unknown(txt(e))
                if not r:
                    return False
                left = right
            return True
        if isinstance(e, ast.Subscript):
            base = self.ev(e.value)
            if isinstance(e.slice, ast.Slice):
                lo = None if e.slice.lower is None else self.ev(e.slice.lower)
                hi = None if e.slice.upper is None else self.ev(e.slice.upper)
                return base[lo:hi]
            idx = self.ev(e.slice)
            if isinstance(base, (str, list, tuple)) and isinstance(idx, int):
                return base[idx]
            if isinstance(base, dict) and idx in base:
                return base[idx]
            raise Unknown(txt(e))
        if isinstance(e, ast.UnaryOp) and isinstance(e.op, ast.USub):
            return -self.ev(e.operand)
        # function values: unbound str methods, operator.*, lambdas
        if isinstance(e, ast.Attribute) and dotted(e) is not None:
            d = dotted(e)
            if d.startswith("str.") and d[4:] in STR_METHODS:
                return getattr(str, d[4:])
            if d.startswith("operator.") and d[9:] in OPERATOR_FUNCS:
                return OPERATOR_FUNCS[d[9:]]
        if isinstance(e, ast.Lambda):
            a = e.args
            if a.vararg or a.kwarg or a.kwonlyargs or a.defaults \
                    or a.posonlyargs:
                raise Unknown(txt(e))
            params = [x.arg for x in a.args]
            env = dict(self.env)

            def closure(*vals, _params=params, _body=e.body, _env=env):
                if len(vals) != len(_params):
                    raise Unknown("lambda arity")
                return Mini({**_env, **dict(zip(_params, vals))}).ev(_body)
            return closure
        if isinstance(e, ast.Attribute):
            try:
                base = self.ev(e.value)
            except Unordered:
                raise
            except Unknown:
                base = None
            if isinstance(base, Model) and hasattr(base, e.attr):
                return getattr(base, e.attr)
            if isinstance(base, (list, tuple)) and e.attr in ("index",
                                                              "count"):
                return getattr(base, e.attr)
            if isinstance(base, dict) and e.attr == "get":
                return base.get
        if isinstance(e, ast.Dict) and all(k is not None for k in e.keys):
            return {self.ev(k): self.ev(v) for k, v in zip(e.keys, e.values)}
        if isinstance(e, (ast.ListComp, ast.GeneratorExp)):
            return self._comprehension(e)
        if isinstance(e, ast.SetComp):
            return USet(self._comprehension(e))
        if isinstance(e, ast.Call) and dotted(e.func) in (
                "sorted", "set", "list", "tuple", "reversed",
                "frozenset") and dotted(e.func) not in self.env:
            try:
                return self._collection_call(e)
            except Unknown:
                raise
            except Exception as exc:
                raise Raises(f"{txt(e)} raises {type(exc).__name__}")
        if isinstance(e, ast.Call) and not e.keywords:
            try:
                if isinstance(e.func, ast.Attribute) \
                        and e.func.attr in STR_METHODS and not (
                            dotted(e.func) or "").startswith(
                            ("str.", "operator.")):
                    recv = self.ev(e.func.value)
                    if recv is None:
                        raise Raises(f"{txt(e)} raises AttributeError")
                    if not isinstance(recv, str):
                        raise Unknown(txt(e))
                    args = [self.ev(a) for a in e.args]
                    return getattr(recv, e.func.attr)(*args)
                if dotted(e.func) in ("bool", "len", "str") \
                        and len(e.args) == 1 \
                        and dotted(e.func) not in self.env:
                    v = self.ev(e.args[0])
                    if dotted(e.func) == "len" and not isinstance(
                            v, (str, list, tuple, set)):
                        raise Unknown(txt(e))
                    return {"bool": bool, "len": len,
                            "str": str}[dotted(e.func)](v)
                f = self.ev(e.func)
                if callable(f):
                    return f(*[self.ev(a) for a in e.args])
            except Unknown:
                raise
            except Exception as exc:     # ValueError of str.index, ...
                raise Raises(f"{txt(e)} raises {type(exc).__name__}")
        if isinstance(e, ast.Call) and all(k.arg for k in e.keywords) \
                and not any(isinstance(a, ast.Starred) for a in e.args):
            f = self.ev(e.func)
            if isinstance(f, DefValue):
                return f(*[self.ev(a) for a in e.args],
                         **{k.arg: self.ev(k.value) for k in e.keywords})
        raise Unknown(txt(e))


class DefValue:
    """a function of the repository as a value of the evaluator: calling it
    interprets the definition (assignments to plain names, if, return,
    raise, expression statements; early returns allowed)"""

    def __init__(self, fd, env=None):
        self.fd = fd
        self.env = env if env is not None else {}

    def __call__(self, *args, **kwargs):
        a = self.fd.args
        if a.vararg or a.kwarg or a.posonlyargs:
            raise Unknown(f"{self.fd.name} (signature)")
        params = [x.arg for x in a.args]
        if params and params[0] in ("self", "cls") and isinstance(
                getattr(self.fd, "parent", None), ast.ClassDef) \
                and not any(txt(d) == "staticmethod"
                            for d in self.fd.decorator_list):
            raise Unknown(f"{self.fd.name} (method)")
        env = dict(self.env)
        loc = dict(zip(params, args))
        if len(args) > len(params):
            raise Raises(f"{self.fd.name}() raises TypeError")
        for k, v in kwargs.items():
            if k in loc or k not in params + [x.arg for x in a.kwonlyargs]:
                raise Raises(f"{self.fd.name}() raises TypeError")
            loc[k] = v
        for prm, d in zip(a.args[len(a.args) - len(a.defaults):],
                          a.defaults):
            if prm.arg not in loc:
                loc[prm.arg] = Mini(env).ev(d)
        for prm, d in zip(a.kwonlyargs, a.kw_defaults):
            if d is not None and prm.arg not in loc:
                loc[prm.arg] = Mini(env).ev(d)
        if set(loc) != set(params + [x.arg for x in a.kwonlyargs]):
            raise Raises(f"{self.fd.name}() raises TypeError")
        env.update(loc)

        def block(stmts):
            for st in stmts:
                if isinstance(st, ast.If):
                    r = block(st.body if Mini(env).ev(st.test)
                              else st.orelse)
                    if r is not None:
                        return r
                elif isinstance(st, ast.Return):
                    return ("ret", None if st.value is None
                            else Mini(env).ev(st.value))
                elif isinstance(st, ast.Raise):
                    raise Raises(f"{self.fd.name}() raises "
                                 f"{txt(st.exc)[:40] if st.exc else ''}")
                elif isinstance(st, ast.Assign) and len(
                        st.targets) == 1 and isinstance(
                        st.targets[0], ast.Name):
                    env[st.targets[0].id] = Mini(env).ev(st.value)
                elif isinstance(st, ast.Pass) or (
                        isinstance(st, ast.Expr) and isinstance(
                            st.value, ast.Constant)):
                    continue
                else:
                    raise Unknown(f"{self.fd.name}: `{txt(st)[:50]}`")
            return None
        r = block(self.fd.body)
        return None if r is None else r[1]


def module_functions(repo, rel):
    """name -> DefValue of the module-level functions of a file (they can
    call each other)"""
    env = {}
    for st in repo.tree(rel).body:
        if isinstance(st, ast.FunctionDef):
            env[st.name] = DefValue(st, env)
    return env


def fold(expr, env, what):
    try:
        return Mini(env).ev(expr)
    except Unknown as u:
        raise AnalysisError(f"cannot fold {what}: `{txt(expr)}` "
                            f"(sub-expression `{u}`)")


# ----------------------------------------------------------------------
def files_mentioning(repo, words, prefix=PKG):
    out = []
    for rel in repo.files(prefix):
        src = repo.src(rel)
        if any(w in src for w in words):
            out.append(rel)
    return out


def classes_in(repo, rel):
    """(qualname, ClassDef) of the module-level classes of a file"""
    return [(n.name, n) for n in repo.tree(rel).body
            if isinstance(n, ast.ClassDef)]


def base_names(cls):
    return [(dotted(b) or "").split(".")[-1] for b in cls.bases]


def class_assign(cls, name):
    """value node of the class-level assignment `name = ...` (or None)"""
    val = None
    for st in cls.body:
        if isinstance(st, ast.Assign):
            for t in st.targets:
                if isinstance(t, ast.Name) and t.id == name:
                    val = st.value
        elif isinstance(st, ast.AnnAssign) and st.value is not None \
                and isinstance(st.target, ast.Name) and st.target.id == name:
            val = st.value
    return val


def method(cls, name):
    found = None
    for st in cls.body:
        if isinstance(st, (ast.FunctionDef, ast.AsyncFunctionDef)) \
                and st.name == name:
            found = st
    return found


def fold_basin_classes(repo):
    """-> list of (rel, ClassDef, format, type) for the direct subclasses of
    `Basin` that define `basin_format` (what get_basin_classes registers)"""
    out = []
    for rel in files_mentioning(repo, ["Basin)"]):
        for name, cls in classes_in(repo, rel):
            if "Basin" not in base_names(cls):
                continue
            fmt = class_assign(cls, "basin_format")
            typ = class_assign(cls, "basin_type")
            if fmt is None:
                # get_basin_classes(): hasattr is true for the abstract
                # property of the base class as well -> cannot fold
                raise AnalysisError(
                    f"{rel}::{name}: Basin subclass without a class-level "
                    f"basin_format")
            out.append((rel, cls, const_str(fmt),
                        None if typ is None else const_str(typ)))
    if not out:
        raise AnalysisError("no Basin subclasses found")
    return out


# ----------------------------------------------------------------------
def enclosing_conditions(node, stop):
    """[(test expr, polarity)] of the `if` statements (and conditional
    expressions) enclosing `node` inside `stop`"""
    out = []
    child = node
    for a in ancestors(node):
        if a is stop:
            break
        if isinstance(a, ast.If):
            if any(child is s for s in a.body):
                out.append((a.test, True))
            elif any(child is s for s in a.orelse):
                out.append((a.test, False))
        elif isinstance(a, ast.IfExp):
            if child is a.body:
                out.append((a.test, True))
            elif child is a.orelse:
                out.append((a.test, False))
        child = a
    return out


def stmt_of(node):
    n = node
    while not isinstance(n, ast.stmt):
        n = n.parent
    return n


def cfg_ids(cfg, node):
    """CFG node ids at which `node` (an expression or statement) is
    evaluated"""
    st = stmt_of(node)
    ids = cfg.ids_of(st)
    if not ids:
        raise AnalysisError(f"statement not in CFG: {txt(st)[:60]}")
    return ids


def edge_guarded(cfg, targets, establishes, sources=None):
    """every path from the entry (or `sources`) to a target crosses an edge
    for which `establishes(srcN, label, dstN)` holds"""
    r = cfg.reach(sources or [cfg.entry], avoid_edge=establishes,
                  include_sources=True)
    return not any(t in r for t in targets)


def fact_guard(fact):
    """edge predicate: leaving a test node on a branch that guarantees a
    (expr, truth) pair accepted by `fact`"""
    def establishes(src, lab, dst):
        if src.kind == "test" and lab in ("T", "F"):
            for e, t in branch_facts(src.ast.test, lab == "T"):
                if fact(e, t):
                    return True
        return False
    return establishes


def self_attr_writes(repo, attr, prefix=PKG):
    """every syntactic write to an attribute / class-level name `attr` in the
    package: (rel, node, kind, value) with kind in assign|augassign|class|
    setattr|mutate|delete"""
    out = []
    for rel in files_mentioning(repo, [attr], prefix):
        tree = repo.tree(rel)
        for n in ast.walk(tree):
            if isinstance(n, ast.Assign):
                for t in n.targets:
                    for tt in (t.elts if isinstance(t, (ast.Tuple, ast.List))
                               else [t]):
                        if isinstance(tt, ast.Attribute) and tt.attr == attr:
                            out.append((rel, n, "assign", n.value))
                        elif isinstance(tt, ast.Name) and tt.id == attr \
                                and isinstance(n.parent, ast.ClassDef):
                            out.append((rel, n, "class", n.value))
            elif isinstance(n, ast.AnnAssign):
                t = n.target
                if isinstance(t, ast.Attribute) and t.attr == attr:
                    out.append((rel, n, "assign", n.value))
                elif isinstance(t, ast.Name) and t.id == attr and isinstance(
                        n.parent, ast.ClassDef):
                    out.append((rel, n, "class", n.value))
            elif isinstance(n, ast.AugAssign):
                t = n.target
                if isinstance(t, ast.Attribute) and t.attr == attr:
                    out.append((rel, n, "augassign", n.value))
            elif isinstance(n, ast.Delete):
                for t in n.targets:
                    base = t.value if isinstance(t, ast.Subscript) else t
                    if isinstance(base, ast.Attribute) and base.attr == attr:
                        out.append((rel, n, "delete", None))
            elif isinstance(n, ast.Call):
                if dotted(n.func) == "setattr" and len(n.args) == 3 \
                        and const_str(n.args[1]) == attr:
                    out.append((rel, n, "setattr", n.args[2]))
                elif isinstance(n.func, ast.Attribute) and isinstance(
                        n.func.value, ast.Attribute) \
                        and n.func.value.attr == attr and n.func.attr in (
                            "clear", "remove", "pop", "append", "extend",
                            "insert", "sort", "reverse"):
                    out.append((rel, n, "mutate:" + n.func.attr, None))
    return out


def single_assign(func, name):
    """the value of the only plain assignment to local `name` (or None)"""
    vals = []
    for n in walk(func):
        if isinstance(n, ast.Assign) and len(n.targets) == 1 and isinstance(
                n.targets[0], ast.Name) and n.targets[0].id == name:
            vals.append(n.value)
    return vals[0] if len(vals) == 1 else None


__all__ = [n for n in dir() if not n.startswith("__")]


# ----------------------------------------------------------------------
# normalisation of function bodies (copies; the originals stay untouched)

import copy as _copy

from .core import link as _link


def _finish(new, func):
    ast.fix_missing_locations(new)
    _link(new)
    new.parent = getattr(func, "parent", None)
    return new


def _blocks(st):
    for fld in ("body", "orelse", "finalbody"):
        v = getattr(st, fld, None)
        if isinstance(v, list) and not isinstance(
                st, (ast.FunctionDef, ast.ClassDef, ast.Lambda)):
            yield fld, v
    if isinstance(st, ast.Try):
        for h in st.handlers:
            yield "body", h.body


def _unconditional_walrus(expr):
    """NamedExpr nodes of `expr` that are evaluated whenever `expr` is
    (not in the right operand of and/or, a conditional expression branch,
    a lambda or a comprehension)"""
    out = []

    def rec(e):
        if isinstance(e, ast.NamedExpr):
            rec(e.value)
            out.append(e)
            return
        if isinstance(e, ast.BoolOp):
            rec(e.values[0])
            return
        if isinstance(e, ast.IfExp):
            rec(e.test)
            return
        if isinstance(e, (ast.Lambda, ast.ListComp, ast.SetComp,
                          ast.DictComp, ast.GeneratorExp)):
            return
        for c in ast.iter_child_nodes(e):
            rec(c)
    rec(expr)
    return out


def dewalrus(func):
    """copy of `func` in which ``if (x := E) ...:`` / ``y = f(x := E)`` are
    rewritten to ``x = E`` followed by the statement using ``x``"""
    new = _copy.deepcopy(func)

    class Repl(ast.NodeTransformer):
        def __init__(self, targets):
            self.t = targets

        def visit_NamedExpr(self, node):
            self.generic_visit(node)
            if any(node is t for t in self.t):
                return ast.copy_location(ast.Name(id=node.target.id,
                                                  ctx=ast.Load()), node)
            return node

    def process(stmts):
        out = []
        for st in stmts:
            for fld, blk in list(_blocks(st)):
                if isinstance(st, ast.Try) and fld == "body" \
                        and blk is not st.body:
                    blk[:] = process(blk)
                else:
                    setattr(st, fld, process(blk)) if blk is getattr(
                        st, fld, None) else blk.__setitem__(
                        slice(None), process(blk))
            part = None
            if isinstance(st, ast.If):
                part = "test"
            elif isinstance(st, (ast.Assign, ast.Expr, ast.Return,
                                 ast.AugAssign)) and getattr(
                    st, "value", None) is not None:
                part = "value"
            if part is not None:
                ws = _unconditional_walrus(getattr(st, part))
                for w in ws:
                    out.append(ast.copy_location(ast.Assign(
                        targets=[ast.Name(id=w.target.id, ctx=ast.Store())],
                        value=w.value), st))
                if ws:
                    setattr(st, part, Repl(ws).visit(getattr(st, part)))
            out.append(st)
        return out
    new.body = process(new.body)
    return _finish(new, func)


class _Renamer(ast.NodeTransformer):
    def __init__(self, mapping):
        self.m = mapping

    def visit_Name(self, node):
        if node.id in self.m:
            return ast.copy_location(ast.Name(id=self.m[node.id],
                                              ctx=node.ctx), node)
        return node

    def visit_FunctionDef(self, node):
        return node

    visit_Lambda = visit_FunctionDef


def _eliminate_returns(stmts, retname):
    """rewrite a helper body so that every ``return X`` becomes
    ``retname = X`` and the statements after a returning ``if`` move into the
    branch that falls through; -> (statements, always returns) or None when a
    return sits inside a loop / try / with"""
    out = []
    for idx, st in enumerate(stmts):
        if isinstance(st, ast.Return):
            out.append(ast.copy_location(ast.Assign(
                targets=[ast.Name(id=retname, ctx=ast.Store())],
                value=st.value or ast.Constant(value=None)), st))
            return out, True
        has_ret = any(isinstance(x, ast.Return) for x in walk(st))
        if not has_ret:
            out.append(st)
            continue
        if not isinstance(st, ast.If):
            return None
        rb = _eliminate_returns(st.body, retname)
        ro = _eliminate_returns(st.orelse, retname)
        rr = _eliminate_returns(stmts[idx + 1:], retname)
        if rb is None or ro is None or rr is None:
            return None
        body, b_ret = rb
        orelse, o_ret = ro
        rest, r_ret = rr
        if not b_ret:
            body = body + _copy.deepcopy(rest)
        if not o_ret:
            orelse = orelse + _copy.deepcopy(rest)
        out.append(ast.copy_location(ast.If(
            test=st.test, body=body or [ast.Pass()], orelse=orelse), st))
        return out, (b_ret or r_ret) and (o_ret or r_ret)
    return out, False


def method_mro(repo, rel, cls, name):
    """the method `name` of `cls` or of its base classes defined in the same
    file (depth first, left to right)"""
    seen = set()
    todo = [cls]
    index = {n.name: n for n in repo.tree(rel).body
             if isinstance(n, ast.ClassDef)}
    while todo:
        c = todo.pop(0)
        if c.name in seen:
            continue
        seen.add(c.name)
        for st in c.body:
            if isinstance(st, ast.FunctionDef) and st.name == name:
                return st
        todo = [index[b] for b in [(dotted(x) or "").split(".")[-1]
                                   for x in c.bases] if b in index] + todo
    return None


def class_constants(repo, rel, cls):
    """class-level constants visible on instances of `cls` (own + bases in
    the file; nearer definitions win): name -> folded value"""
    out = {}
    index = {n.name: n for n in repo.tree(rel).body
             if isinstance(n, ast.ClassDef)}
    order, todo = [], [cls]
    while todo:
        c = todo.pop(0)
        if c in order:
            continue
        order.append(c)
        todo += [index[b] for b in [(dotted(x) or "").split(".")[-1]
                                    for x in c.bases] if b in index]
    for c in reversed(order):
        for st in c.body:
            if isinstance(st, ast.Assign) and len(st.targets) == 1 \
                    and isinstance(st.targets[0], ast.Name):
                try:
                    out[st.targets[0].id] = Mini({}).ev(st.value)
                except Unknown:
                    pass
    return out


def resolve_imported(repo, rel, name, func=None, depth=3):
    """(rel2, FunctionDef) of a module-level function bound to `name` in
    file `rel` by a from-import (module level, or inside `func`), following
    re-exports of package __init__ files"""
    if depth == 0:
        return None
    imps = [st for st in repo.tree(rel).body
            if isinstance(st, ast.ImportFrom)]
    if func is not None:
        imps += [st for st in walk(func) if isinstance(st, ast.ImportFrom)]
    for st in imps:
        for a in st.names:
            if (a.asname or a.name) != name:
                continue
            parts = rel.split("/")[:-1]
            if st.level:
                parts = parts[:len(parts) - (st.level - 1)]
            else:
                parts = []
            mod = parts + (st.module.split(".") if st.module else [])
            for cand in ("/".join(mod) + ".py",
                         "/".join(mod) + "/__init__.py"):
                if not repo.exists(cand):
                    continue
                f2 = repo.lookup(cand, a.name, missing_ok=True)
                if isinstance(f2, ast.FunctionDef) and isinstance(
                        f2.parent, ast.Module):
                    return cand, f2
                if f2 is None:
                    r = resolve_imported(repo, cand, a.name, None,
                                         depth - 1)
                    if r is not None:
                        return r
    return None


def inline_module_helpers(repo, rel, func, depth=2, methods=False, keep=(),
                          imports=False, functions=True):
    """copy of `func` in which calls of helpers are replaced by the helper's
    body and its result: module-level functions of the same file and – with
    `methods` – private methods (``self._x`` / ``cls._x`` / ``Class._x``) of
    the same class, except the names in `keep`.  Calls are expanded where
    they occur in an expression / assignment / return statement or in the
    test of an ``if``.  Helpers may return early (returns are eliminated);
    parameters bound to plain names or used once are substituted, the others
    bound by assignments; helper locals are renamed ``<name>_h<k>``."""
    new = _copy.deepcopy(func)
    counter = [0]
    cls = getattr(func, "parent", None)
    cls = cls if isinstance(cls, ast.ClassDef) else None

    inlined_names = set()
    cur_rel = [rel]

    def helper_of(call):
        f = call.func
        h, skip_self = None, False
        call._h_rel = cur_rel[0]
        if isinstance(f, ast.Name) and functions:
            h = repo.lookup(cur_rel[0], f.id, missing_ok=True)
            if not isinstance(h, ast.FunctionDef) or not isinstance(
                    h.parent, ast.Module):
                h = None
            if h is None and imports:
                r = resolve_imported(repo, cur_rel[0], f.id,
                                     func if cur_rel[0] == rel else None)
                if r is not None:
                    call._h_rel, h = r
        elif methods and cls is not None and cur_rel[0] == rel \
                and isinstance(f, ast.Attribute) and isinstance(
                f.value, ast.Name) and f.value.id in (
                "self", "cls", cls.name) and f.attr.startswith("_") \
                and not f.attr.startswith("__"):
            h = method_mro(repo, rel, cls, f.attr)
            if h is not None:
                decos = [txt(d) for d in h.decorator_list]
                if any(d not in ("staticmethod", "classmethod")
                       for d in decos):
                    return None
                skip_self = "staticmethod" not in decos
        if h is None or h.name == func.name or h.name in keep:
            return None
        if isinstance(f, ast.Name) and h.decorator_list:
            return None
        a = h.args
        if a.vararg or a.kwarg or a.posonlyargs:
            return None
        if any(isinstance(n, (ast.Yield, ast.YieldFrom, ast.Global,
                              ast.Nonlocal, ast.Await)) for n in walk(h)):
            return None
        if any(isinstance(s, ast.Starred) for s in call.args) or any(
                k.arg is None for k in call.keywords):
            return None
        if not any(isinstance(n, ast.Return) and n.value is not None
                   for n in walk(h)) and not getattr(call, "_as_stmt",
                                                     False):
            return None
        return h, skip_self

    def expand(call, h, skip_self, target=None):
        counter[0] += 1
        tag = f"_h{counter[0]}"
        inlined_names.add(h.name)
        pos = h.args.args[1:] if skip_self else h.args.args
        params = [x.arg for x in pos + h.args.kwonlyargs]
        bound = {}
        for p, v in zip([x.arg for x in pos], call.args):
            bound[p] = v
        if len(call.args) > len(pos):
            return None
        for k in call.keywords:
            if k.arg not in params or k.arg in bound:
                return None
            bound[k.arg] = k.value
        for p, d in zip(pos[len(pos) - len(h.args.defaults):],
                        h.args.defaults):
            bound.setdefault(p.arg, d)
        for p, d in zip(h.args.kwonlyargs, h.args.kw_defaults):
            if d is not None:
                bound.setdefault(p.arg, d)
        if set(bound) != set(params):
            return None
        hb = _copy.deepcopy(h.body)
        doc = hb and isinstance(hb[0], ast.Expr) and isinstance(
            hb[0].value, ast.Constant) and isinstance(hb[0].value.value, str)
        hb = hb[1 if doc else 0:]
        retname = "ret" + tag
        single = len([n for n in walk(h) if isinstance(n, ast.Return)]) == 1 \
            and isinstance(h.body[-1], ast.Return)
        if not any(isinstance(n, ast.Return) for n in walk(h)):
            # a procedure called as a statement
            stmts, ret = hb, ast.Constant(value=None)
        elif single:
            stmts, ret = hb[:-1], hb[-1].value
        else:
            r = _eliminate_returns(hb, retname)
            if r is None:
                return None
            stmts, always = r
            if not always:
                stmts = [ast.Assign(
                    targets=[ast.Name(id=retname, ctx=ast.Store())],
                    value=ast.Constant(value=None))] + stmts
            ret = ast.Name(id=retname, ctx=ast.Load())
        holder = ast.Module(body=stmts + [ast.Expr(value=ret)],
                            type_ignores=[])
        stored, loads = set(), {}
        for n in ast.walk(holder):
            if isinstance(n, ast.Name):
                if isinstance(n.ctx, ast.Store):
                    stored.add(n.id)
                else:
                    loads[n.id] = loads.get(n.id, 0) + 1
        locs = (stored | set(params)) - {retname}
        direct = {}
        pre = []
        # in-out parameter: `x = helper(p=x)` where the helper updates `p`
        # and ends with `return p` – the helper works on `x` itself
        inout = None
        if target is not None and single and isinstance(
                ret, ast.Name) and ret.id in params and isinstance(
                bound[ret.id], ast.Name) and bound[ret.id].id == target:
            inout = ret.id
            locs = locs - {inout}
        for prm in params:
            v = bound[prm]
            simple = isinstance(v, (ast.Name, ast.Constant))
            if prm == inout:
                continue
            if prm not in stored and (simple or loads.get(prm, 0) <= 1):
                direct[prm] = v
            else:
                pre.append(ast.Assign(
                    targets=[ast.Name(id=prm + tag, ctx=ast.Store())],
                    value=_copy.deepcopy(v)))

        class Sub(ast.NodeTransformer):
            def visit_Name(self, node):
                if node.id in direct and isinstance(node.ctx, ast.Load):
                    return ast.copy_location(_copy.deepcopy(direct[node.id]),
                                             node)
                if node.id in locs:
                    return ast.copy_location(ast.Name(
                        id=node.id + tag, ctx=node.ctx), node)
                if inout is not None and node.id == inout:
                    return ast.copy_location(ast.Name(
                        id=target, ctx=node.ctx), node)
                return node

            def visit_FunctionDef(self, node):
                return node

            visit_Lambda = visit_FunctionDef
        holder = Sub().visit(holder)
        return pre + holder.body[:-1], holder.body[-1].value

    def process(stmts, level):
        out = []
        for st in stmts:
            for fld, blk in _blocks(st):
                blk[:] = process(blk, level)
            part = None
            if isinstance(st, (ast.Expr, ast.Assign, ast.Return)) \
                    and st.value is not None:
                part = "value"
            elif isinstance(st, ast.If):
                part = "test"
            if isinstance(st, ast.Expr) and isinstance(st.value, ast.Call):
                st.value._as_stmt = True
            if part is not None and level < depth:
                pre = []

                class T(ast.NodeTransformer):
                    def visit_Lambda(self, node):
                        return node

                    visit_ListComp = visit_SetComp = visit_DictComp = \
                        visit_GeneratorExp = visit_Lambda

                    def visit_BoolOp(self, node):
                        # only the first operand is evaluated for sure
                        node.values[0] = self.visit(node.values[0])
                        return node

                    def visit_IfExp(self, node):
                        node.test = self.visit(node.test)
                        return node

                    def visit_Call(self, node):
                        self.generic_visit(node)
                        hh = helper_of(node)
                        if hh is None:
                            return node
                        tg = None
                        if isinstance(st, ast.Assign) and st.value is node \
                                and len(st.targets) == 1 and isinstance(
                                    st.targets[0], ast.Name):
                            tg = st.targets[0].id
                        ex = expand(node, *hh, target=tg)
                        if ex is None:
                            return node
                        body, ret = ex
                        prev = cur_rel[0]
                        cur_rel[0] = getattr(node, "_h_rel", prev)
                        try:
                            pre.extend(process(body, level + 1))
                        finally:
                            cur_rel[0] = prev
                        return ast.copy_location(ret, node)
                setattr(st, part, T().visit(getattr(st, part)))
                for p_ in pre:
                    for x in ast.walk(p_):
                        if not hasattr(x, "lineno") or True:
                            ast.copy_location(x, st)
                out.extend(pre)
                if pre and isinstance(st, ast.Expr) and isinstance(
                        st.value, ast.Constant):
                    continue        # the inlined procedure call itself
                if pre and isinstance(st, ast.Assign) and len(
                        st.targets) == 1 and isinstance(
                        st.targets[0], ast.Name) and is_name_(
                        st.value, st.targets[0].id):
                    continue        # x = x after an in-out helper
                if pre and isinstance(st, ast.Assign) and len(
                        st.targets) == 1 and isinstance(
                        st.targets[0], ast.Tuple) and isinstance(
                        st.value, ast.Tuple) and len(
                        st.targets[0].elts) == len(st.value.elts) and all(
                        isinstance(x, (ast.Name, ast.Constant))
                        for x in st.value.elts):
                    # a, b = helper(..)  ->  a = <ret 0>; b = <ret 1>
                    for t, v in zip(st.targets[0].elts, st.value.elts):
                        out.append(ast.copy_location(ast.Assign(
                            targets=[t], value=v), st))
                    continue
            out.append(st)
        return out
    new.body = process(new.body, 0)
    new.inlined = counter[0]
    new.inlined_names = inlined_names
    return _finish(new, func)


def is_name_(e, name):
    return isinstance(e, ast.Name) and e.id == name


def run_straight(func, env, consts=None):
    """interpret a function whose body consists of if / return / raise /
    expression statements for one assignment of its parameters:
    -> ("return", expr node) | ("raise", stmt) | ("end", None)"""
    full = dict(consts or {})
    full.update(env)

    def block(stmts):
        for st in stmts:
            if isinstance(st, ast.If):
                r = block(st.body if Mini(full).ev(st.test) else st.orelse)
                if r is not None:
                    return r
            elif isinstance(st, ast.Return):
                return "return", st.value
            elif isinstance(st, ast.Raise):
                return "raise", st
            elif isinstance(st, (ast.Expr, ast.Pass)):
                continue
            else:
                raise Unknown(txt(st)[:60])
        return None
    return block(func.body) or ("end", None)


def basin_loop(func, what):
    """the loop of `func` that walks the basins of the dataset, also when it
    iterates a local bound to a filtering comprehension:
    -> (loop, loop variable, base iterable expr, [(keep test, its variable)])
    """
    found = []
    for n in walk(func):
        if not (isinstance(n, ast.For) and isinstance(n.target, ast.Name)):
            continue
        it = n.iter
        if isinstance(it, ast.Name):
            vals = [a.value for a in walk(func) if isinstance(a, ast.Assign)
                    and len(a.targets) == 1 and isinstance(
                        a.targets[0], ast.Name)
                    and a.targets[0].id == it.id]
            if len(vals) != 1:
                continue
            it = vals[0]
        keeps = []
        while isinstance(it, ast.Call) and dotted(it.func) in (
                "list", "tuple", "iter") and len(it.args) == 1 \
                and isinstance(it.args[0], (ast.GeneratorExp, ast.ListComp)):
            it = it.args[0]
        if isinstance(it, (ast.GeneratorExp, ast.ListComp)):
            if len(it.generators) != 1 or not isinstance(
                    it.generators[0].target, ast.Name) or not isinstance(
                    it.elt, ast.Name) or it.elt.id != \
                    it.generators[0].target.id:
                continue
            g = it.generators[0]
            keeps = [(c, g.target.id) for c in g.ifs]
            it = g.iter
        if "self.basins" in txt(it) or "self._basins" in txt(it):
            found.append((n, n.target.id, it, keeps))
    if len(found) != 1:
        raise AnalysisError(f"{what}: basin loop lost")
    return found[0]


def expand_partials(func):
    """copy of `func` in which calls of a local bound once to
    ``functools.partial(f, *a, **k)`` are rewritten to ``f(*a, ..., **k)``"""
    stores = {}
    for n in walk(func):
        if isinstance(n, ast.Name) and isinstance(n.ctx, ast.Store):
            stores[n.id] = stores.get(n.id, 0) + 1
    parts = {}
    for n in walk(func):
        if isinstance(n, ast.Assign) and len(n.targets) == 1 and isinstance(
                n.targets[0], ast.Name) and stores.get(
                n.targets[0].id) == 1 and isinstance(
                n.value, ast.Call) and dotted(n.value.func) in (
                "functools.partial", "partial") and n.value.args:
            parts[n.targets[0].id] = n.value
    if not parts:
        return func
    new = _copy.deepcopy(func)

    class T(ast.NodeTransformer):
        def visit_Call(self, node):
            self.generic_visit(node)
            if isinstance(node.func, ast.Name) and node.func.id in parts:
                pc = parts[node.func.id]
                given = {k.arg for k in node.keywords if k.arg}
                kws = [_copy.deepcopy(k) for k in pc.keywords
                       if k.arg is None or k.arg not in given]
                return ast.copy_location(ast.Call(
                    func=_copy.deepcopy(pc.args[0]),
                    args=[_copy.deepcopy(a) for a in pc.args[1:]]
                    + node.args,
                    keywords=kws + node.keywords), node)
            return node

        def visit_FunctionDef(self, node):
            if node is new:
                self.generic_visit(node)
            return node

        visit_Lambda = lambda self, node: node
    T().visit(new)
    return _finish(new, func)


def ifexp_to_if(func):
    """copy of `func` in which ``x = a if c else b`` and
    ``return a if c else b`` are written as if / else statements"""
    if not any(isinstance(n, ast.IfExp) for n in walk(func)):
        return func
    new = _copy.deepcopy(func)

    def split(st):
        if isinstance(st, ast.Assign) and isinstance(st.value, ast.IfExp):
            mk = lambda v: ast.copy_location(ast.Assign(
                targets=_copy.deepcopy(st.targets), value=v), st)
        elif isinstance(st, ast.Return) and isinstance(st.value, ast.IfExp):
            mk = lambda v: ast.copy_location(ast.Return(value=v), st)
        else:
            return [st]
        v = st.value
        return [ast.copy_location(ast.If(
            test=v.test, body=split(mk(v.body)),
            orelse=split(mk(v.orelse))), st)]

    def process(stmts):
        out = []
        for st in stmts:
            for fld, blk in _blocks(st):
                blk[:] = process(blk)
            out.extend(split(st))
        return out
    new.body = process(new.body)
    return _finish(new, func)


def interpret(func, env):
    """run the body of `func` for one state `env` (normalised source text ->
    value; locals by name): plain and attribute assignments, if, return,
    raise; expression statements are skipped.
    -> ("return", value) | ("end", None); raises Raises / Unknown"""
    env = dict(env)

    def block(stmts):
        for st in stmts:
            if isinstance(st, ast.If):
                r = block(st.body if Mini(env).ev(st.test) else st.orelse)
                if r is not None:
                    return r
            elif isinstance(st, ast.Return):
                return ("return", None if st.value is None
                        else Mini(env).ev(st.value))
            elif isinstance(st, ast.Raise):
                raise Raises(f"raise {txt(st.exc)[:40] if st.exc else ''}")
            elif isinstance(st, ast.Assign) and len(st.targets) == 1 \
                    and isinstance(st.targets[0], (ast.Name, ast.Attribute)):
                env[txt(st.targets[0])] = Mini(env).ev(st.value)
            elif isinstance(st, (ast.Expr, ast.Pass)):
                continue
            else:
                raise Unknown(txt(st)[:60])
        return None
    return block(func.body) or ("end", None)


def expand_self_aliases(func):
    """copy of `func` in which locals bound exactly once to an attribute
    chain of ``self`` (``x = self.a.b``; the attribute is not assigned in the
    function) are replaced by that chain and the binding is dropped"""
    stores = {}
    for n in walk(func):
        if isinstance(n, ast.Name) and isinstance(n.ctx, (ast.Store,
                                                          ast.Del)):
            stores[n.id] = stores.get(n.id, 0) + 1
    written = {txt(t) for n in walk(func)
               if isinstance(n, (ast.Assign, ast.AugAssign, ast.AnnAssign))
               for t in (n.targets if isinstance(n, ast.Assign)
                         else [n.target])
               if isinstance(t, ast.Attribute)}

    def chain(e):
        while isinstance(e, ast.Attribute):
            e = e.value
        return isinstance(e, ast.Name) and e.id == "self"
    alias = {}
    for n in walk(func):
        if isinstance(n, ast.Assign) and len(n.targets) == 1 and isinstance(
                n.targets[0], ast.Name) and stores.get(
                n.targets[0].id) == 1 and isinstance(
                n.value, ast.Attribute) and chain(n.value) \
                and txt(n.value) not in written:
            alias[n.targets[0].id] = n
    if not alias:
        return func
    new = _copy.deepcopy(func)
    vals = {k: v.value for k, v in alias.items()}

    class T(ast.NodeTransformer):
        def visit_Name(self, node):
            if isinstance(node.ctx, ast.Load) and node.id in vals:
                return ast.copy_location(_copy.deepcopy(vals[node.id]), node)
            return node

        def visit_FunctionDef(self, node):
            if node is new:
                self.generic_visit(node)
            return node

        def visit_Lambda(self, node):
            return node
    def drop(stmts):
        out = []
        for st in stmts:
            if isinstance(st, ast.Assign) and len(
                    st.targets) == 1 and isinstance(
                    st.targets[0], ast.Name) and st.targets[0].id in vals:
                continue
            for fld, blk in _blocks(st):
                blk[:] = drop(blk) or (
                    [ast.copy_location(ast.Pass(), st)]
                    if fld == "body" else [])
            out.append(st)
        return out
    new.body = drop(new.body) or [ast.Pass()]
    T().visit(new)
    return _finish(new, func)
