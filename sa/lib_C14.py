"""Helpers shared by the basin rules (C14, C07).

* `Mini` – a tiny evaluator for the closed expressions the rules have to fold
  (string methods on class names, comparison / membership / identity tests over
  a handful of symbolic names).  Anything else raises AnalysisError.
* `fold_basin_classes` – the table ``format -> (class, basin_type)`` folded from
  the direct subclasses of ``Basin`` (what ``get_basin_classes`` sees).
* `class_index` – name -> ClassDef of every class of the package whose source
  mentions one of the given words (cheap pre-filter before parsing).
* path conditions / edge-guard reachability on the statement CFG.
"""
from __future__ import annotations

import ast

from .cfg import branch_facts
from .core import AnalysisError, ancestors, const_str, dotted, txt, walk

PKG = "dclab/"
CORE = "dclab/rtdc_dataset/core.py"
FB = "dclab/rtdc_dataset/feat_basin.py"
H5BASE = "dclab/rtdc_dataset/fmt_hdf5/base.py"
H5BASIN = "dclab/rtdc_dataset/fmt_hdf5/basin.py"
HTTP = "dclab/rtdc_dataset/fmt_http.py"
S3 = "dclab/rtdc_dataset/fmt_s3.py"
DCORBASIN = "dclab/rtdc_dataset/fmt_dcor/basin.py"
DCORBASE = "dclab/rtdc_dataset/fmt_dcor/base.py"
FDICT = "dclab/rtdc_dataset/fmt_dict.py"
WRITER = "dclab/rtdc_dataset/writer.py"
EXPORT = "dclab/rtdc_dataset/export.py"
COPIER = "dclab/rtdc_dataset/copier.py"

BASIN_TYPES = ("internal", "file", "remote")


class Unknown(Exception):
    pass


STR_METHODS = {"split", "rsplit", "lower", "upper", "strip", "startswith",
               "endswith", "replace", "__contains__", "__eq__", "__ne__",
               "find", "rfind", "index", "count", "casefold", "lstrip",
               "rstrip", "removeprefix", "removesuffix", "partition",
               "rpartition"}
OPERATOR_FUNCS = {"eq": lambda a, b: a == b, "ne": lambda a, b: a != b,
                  "contains": lambda a, b: b in a}


class Raises(Unknown):
    """the evaluated expression raises at run time (e.g. TypeError of
    ``str.startswith(x, None)``) – a fact about the code, not a limit of
    the evaluator"""


class Unordered(Unknown):
    """the expression turns a set into a sequence: the order is undefined"""


class USet(frozenset):
    """a set value produced by the evaluated expression (iteration order is
    not defined – only sorted() may turn it into a sequence)"""


class Model:
    """object with attributes for the evaluator (e.g. a basin with a type)"""

    def __init__(self, **kw):
        self.__dict__.update(kw)


class Mini:
    """Evaluate a closed expression.  `env` maps normalised source text
    (``txt(node)``) to Python values; look-ups go through it first."""

    def _comprehension(self, e):
        """-> list of element values (in generator order)"""
        out = []

        def rec(gens, env):
            if not gens:
                out.append(Mini(env).ev(e.elt))
                return
            g = gens[0]
            it = Mini(env).ev(g.iter)
            if isinstance(it, USet) and isinstance(
                    e, (ast.ListComp, ast.GeneratorExp)):
                raise Unordered(txt(g.iter))
            if not isinstance(it, (list, tuple, set, frozenset, str)):
                raise Unknown(txt(g.iter))
            names = [x.id for x in ast.walk(g.target)
                     if isinstance(x, ast.Name)]
            if not isinstance(g.target, ast.Name) and not (
                    isinstance(g.target, ast.Tuple) and all(
                        isinstance(x, ast.Name) for x in g.target.elts)):
                raise Unknown(txt(g.target))
            for v in it:
                env2 = dict(env)
                if isinstance(g.target, ast.Name):
                    env2[g.target.id] = v
                else:
                    env2.update(dict(zip(names, v)))
                if all(Mini(env2).ev(c) for c in g.ifs):
                    rec(gens[1:], env2)
        rec(list(e.generators), self.env)
        return out

    def _collection_call(self, e):
        """sorted / set / list / tuple / reversed / frozenset"""
        fn = dotted(e.func)
        args = [self.ev(a) for a in e.args]
        kw = {k.arg: self.ev(k.value) for k in e.keywords}
        if None in kw or len(args) > 1 or (fn != "sorted" and kw):
            raise Unknown(txt(e))
        src = args[0] if args else []
        if not isinstance(src, (list, tuple, set, frozenset, str)):
            raise Unknown(txt(e))
        if fn in ("set", "frozenset"):
            return USet(src)
        if fn == "sorted":
            if set(kw) - {"key", "reverse"}:
                raise Unknown(txt(e))
            return sorted(src, **kw)
        if isinstance(src, USet):
            raise Unordered(txt(e))
        if fn == "reversed":
            return list(reversed(src))
        return list(src) if fn == "list" else tuple(src)

    def __init__(self, env):
        self.env = dict(env)

    def ev(self, e):
        key = txt(e)
        if key in self.env:
            return self.env[key]
        if isinstance(e, ast.Constant):
            return e.value
        if isinstance(e, (ast.List, ast.Tuple, ast.Set)):
            vals = [self.ev(x) for x in e.elts]
            return vals if isinstance(e, ast.List) else (
                tuple(vals) if isinstance(e, ast.Tuple) else set(vals))
        if isinstance(e, ast.BoolOp):
            if isinstance(e.op, ast.And):
                v = True
                for x in e.values:
                    v = self.ev(x)
                    if not v:
                        return v
                return v
            v = False
            for x in e.values:
                v = self.ev(x)
                if v:
                    return v
            return v
        if isinstance(e, ast.UnaryOp) and isinstance(e.op, ast.Not):
            return not self.ev(e.operand)
        if isinstance(e, ast.IfExp):
            return self.ev(e.body) if self.ev(e.test) else self.ev(e.orelse)
        if isinstance(e, ast.Compare):
            left = self.ev(e.left)
            for op, c in zip(e.ops, e.comparators):
                right = self.ev(c)
                if isinstance(op, ast.Eq):
                    r = left == right
                elif isinstance(op, ast.NotEq):
                    r = left != right
                elif isinstance(op, ast.Is):
                    r = left is right
                elif isinstance(op, ast.IsNot):
                    r = left is not right
                elif isinstance(op, (ast.In, ast.NotIn)):
                    try:
                        r = left in right
                    except TypeError as exc:
                        raise Raises(f"{txt(e)} raises "
                                     f"{type(exc).__name__}")
                    if isinstance(op, ast.NotIn):
                        r = not r
                else:
                    raise Unknown(txt(e))
                if not r:
                    return False
                left = right
            return True
        if isinstance(e, ast.Subscript):
            base = self.ev(e.value)
            if isinstance(e.slice, ast.Slice):
                lo = None if e.slice.lower is None else self.ev(e.slice.lower)
                hi = None if e.slice.upper is None else self.ev(e.slice.upper)
                return base[lo:hi]
            idx = self.ev(e.slice)
            if isinstance(base, (str, list, tuple)) and isinstance(idx, int):
                return base[idx]
            if isinstance(base, dict) and idx in base:
                return base[idx]
            raise Unknown(txt(e))
        if isinstance(e, ast.UnaryOp) and isinstance(e.op, ast.USub):
            return -self.ev(e.operand)
        # function values: unbound str methods, operator.*, lambdas
        if isinstance(e, ast.Attribute) and dotted(e) is not None:
            d = dotted(e)
            if d.startswith("str.") and d[4:] in STR_METHODS:
                return getattr(str, d[4:])
            if d.startswith("operator.") and d[9:] in OPERATOR_FUNCS:
                return OPERATOR_FUNCS[d[9:]]
        if isinstance(e, ast.Lambda):
            a = e.args
            if a.vararg or a.kwarg or a.kwonlyargs or a.defaults \
                    or a.posonlyargs:
                raise Unknown(txt(e))
            params = [x.arg for x in a.args]
            env = dict(self.env)

            def closure(*vals, _params=params, _body=e.body, _env=env):
                if len(vals) != len(_params):
                    raise Unknown("lambda arity")
                return Mini({**_env, **dict(zip(_params, vals))}).ev(_body)
            return closure
        if isinstance(e, ast.Attribute):
            try:
                base = self.ev(e.value)
            except Unordered:
                raise
            except Unknown:
                base = None
            if isinstance(base, Model) and hasattr(base, e.attr):
                return getattr(base, e.attr)
            if isinstance(base, (list, tuple)) and e.attr in ("index",
                                                              "count"):
                return getattr(base, e.attr)
            if isinstance(base, dict) and e.attr == "get":
                return base.get
        if isinstance(e, ast.Dict) and all(k is not None for k in e.keys):
            return {self.ev(k): self.ev(v) for k, v in zip(e.keys, e.values)}
        if isinstance(e, (ast.ListComp, ast.GeneratorExp)):
            return self._comprehension(e)
        if isinstance(e, ast.SetComp):
            return USet(self._comprehension(e))
        if isinstance(e, ast.Call) and dotted(e.func) in (
                "sorted", "set", "list", "tuple", "reversed",
                "frozenset") and dotted(e.func) not in self.env:
            try:
                return self._collection_call(e)
            except Unknown:
                raise
            except Exception as exc:
                raise Raises(f"{txt(e)} raises {type(exc).__name__}")
        if isinstance(e, ast.Call) and not e.keywords:
            try:
                if isinstance(e.func, ast.Attribute) \
                        and e.func.attr in STR_METHODS and not (
                            dotted(e.func) or "").startswith(
                            ("str.", "operator.")):
                    recv = self.ev(e.func.value)
                    if recv is None:
                        raise Raises(f"{txt(e)} raises AttributeError")
                    if not isinstance(recv, str):
                        raise Unknown(txt(e))
                    args = [self.ev(a) for a in e.args]
                    return getattr(recv, e.func.attr)(*args)
                if dotted(e.func) in ("bool", "len", "str") \
                        and len(e.args) == 1 \
                        and dotted(e.func) not in self.env:
                    v = self.ev(e.args[0])
                    if dotted(e.func) == "len" and not isinstance(
                            v, (str, list, tuple, set)):
                        raise Unknown(txt(e))
                    return {"bool": bool, "len": len,
                            "str": str}[dotted(e.func)](v)
                f = self.ev(e.func)
                if callable(f):
                    return f(*[self.ev(a) for a in e.args])
            except Unknown:
                raise
            except Exception as exc:     # ValueError of str.index, ...
                raise Raises(f"{txt(e)} raises {type(exc).__name__}")
        raise Unknown(txt(e))


def fold(expr, env, what):
    try:
        return Mini(env).ev(expr)
    except Unknown as u:
        raise AnalysisError(f"cannot fold {what}: `{txt(expr)}` "
                            f"(sub-expression `{u}`)")


# ----------------------------------------------------------------------
def files_mentioning(repo, words, prefix=PKG):
    out = []
    for rel in repo.files(prefix):
        src = repo.src(rel)
        if any(w in src for w in words):
            out.append(rel)
    return out


def classes_in(repo, rel):
    """(qualname, ClassDef) of the module-level classes of a file"""
    return [(n.name, n) for n in repo.tree(rel).body
            if isinstance(n, ast.ClassDef)]


def base_names(cls):
    return [(dotted(b) or "").split(".")[-1] for b in cls.bases]


def class_assign(cls, name):
    """value node of the class-level assignment `name = ...` (or None)"""
    val = None
    for st in cls.body:
        if isinstance(st, ast.Assign):
            for t in st.targets:
                if isinstance(t, ast.Name) and t.id == name:
                    val = st.value
        elif isinstance(st, ast.AnnAssign) and st.value is not None \
                and isinstance(st.target, ast.Name) and st.target.id == name:
            val = st.value
    return val


def method(cls, name):
    found = None
    for st in cls.body:
        if isinstance(st, (ast.FunctionDef, ast.AsyncFunctionDef)) \
                and st.name == name:
            found = st
    return found


def fold_basin_classes(repo):
    """-> list of (rel, ClassDef, format, type) for the direct subclasses of
    `Basin` that define `basin_format` (what get_basin_classes registers)"""
    out = []
    for rel in files_mentioning(repo, ["Basin)"]):
        for name, cls in classes_in(repo, rel):
            if "Basin" not in base_names(cls):
                continue
            fmt = class_assign(cls, "basin_format")
            typ = class_assign(cls, "basin_type")
            if fmt is None:
                # get_basin_classes(): hasattr is true for the abstract
                # property of the base class as well -> cannot fold
                raise AnalysisError(
                    f"{rel}::{name}: Basin subclass without a class-level "
                    f"basin_format")
            out.append((rel, cls, const_str(fmt),
                        None if typ is None else const_str(typ)))
    if not out:
        raise AnalysisError("no Basin subclasses found")
    return out


# ----------------------------------------------------------------------
def enclosing_conditions(node, stop):
    """[(test expr, polarity)] of the `if` statements (and conditional
    expressions) enclosing `node` inside `stop`"""
    out = []
    child = node
    for a in ancestors(node):
        if a is stop:
            break
        if isinstance(a, ast.If):
            if any(child is s for s in a.body):
                out.append((a.test, True))
            elif any(child is s for s in a.orelse):
                out.append((a.test, False))
        elif isinstance(a, ast.IfExp):
            if child is a.body:
                out.append((a.test, True))
            elif child is a.orelse:
                out.append((a.test, False))
        child = a
    return out


def stmt_of(node):
    n = node
    while not isinstance(n, ast.stmt):
        n = n.parent
    return n


def cfg_ids(cfg, node):
    """CFG node ids at which `node` (an expression or statement) is
    evaluated"""
    st = stmt_of(node)
    ids = cfg.ids_of(st)
    if not ids:
        raise AnalysisError(f"statement not in CFG: {txt(st)[:60]}")
    return ids


def edge_guarded(cfg, targets, establishes, sources=None):
    """every path from the entry (or `sources`) to a target crosses an edge
    for which `establishes(srcN, label, dstN)` holds"""
    r = cfg.reach(sources or [cfg.entry], avoid_edge=establishes,
                  include_sources=True)
    return not any(t in r for t in targets)


def fact_guard(fact):
    """edge predicate: leaving a test node on a branch that guarantees a
    (expr, truth) pair accepted by `fact`"""
    def establishes(src, lab, dst):
        if src.kind == "test" and lab in ("T", "F"):
            for e, t in branch_facts(src.ast.test, lab == "T"):
                if fact(e, t):
                    return True
        return False
    return establishes


def self_attr_writes(repo, attr, prefix=PKG):
    """every syntactic write to an attribute / class-level name `attr` in the
    package: (rel, node, kind, value) with kind in assign|augassign|class|
    setattr|mutate|delete"""
    out = []
    for rel in files_mentioning(repo, [attr], prefix):
        tree = repo.tree(rel)
        for n in ast.walk(tree):
            if isinstance(n, ast.Assign):
                for t in n.targets:
                    for tt in (t.elts if isinstance(t, (ast.Tuple, ast.List))
                               else [t]):
                        if isinstance(tt, ast.Attribute) and tt.attr == attr:
                            out.append((rel, n, "assign", n.value))
                        elif isinstance(tt, ast.Name) and tt.id == attr \
                                and isinstance(n.parent, ast.ClassDef):
                            out.append((rel, n, "class", n.value))
            elif isinstance(n, ast.AnnAssign):
                t = n.target
                if isinstance(t, ast.Attribute) and t.attr == attr:
                    out.append((rel, n, "assign", n.value))
                elif isinstance(t, ast.Name) and t.id == attr and isinstance(
                        n.parent, ast.ClassDef):
                    out.append((rel, n, "class", n.value))
            elif isinstance(n, ast.AugAssign):
                t = n.target
                if isinstance(t, ast.Attribute) and t.attr == attr:
                    out.append((rel, n, "augassign", n.value))
            elif isinstance(n, ast.Delete):
                for t in n.targets:
                    base = t.value if isinstance(t, ast.Subscript) else t
                    if isinstance(base, ast.Attribute) and base.attr == attr:
                        out.append((rel, n, "delete", None))
            elif isinstance(n, ast.Call):
                if dotted(n.func) == "setattr" and len(n.args) == 3 \
                        and const_str(n.args[1]) == attr:
                    out.append((rel, n, "setattr", n.args[2]))
                elif isinstance(n.func, ast.Attribute) and isinstance(
                        n.func.value, ast.Attribute) \
                        and n.func.value.attr == attr and n.func.attr in (
                            "clear", "remove", "pop", "append", "extend",
                            "insert", "sort", "reverse"):
                    out.append((rel, n, "mutate:" + n.func.attr, None))
    return out


def single_assign(func, name):
    """the value of the only plain assignment to local `name` (or None)"""
    vals = []
    for n in walk(func):
        if isinstance(n, ast.Assign) and len(n.targets) == 1 and isinstance(
                n.targets[0], ast.Name) and n.targets[0].id == name:
            vals.append(n.value)
    return vals[0] if len(vals) == 1 else None


__all__ = [n for n in dir() if not n.startswith("__")]


# ----------------------------------------------------------------------
# normalisation of function bodies (copies; the originals stay untouched)

import copy as _copy

from .core import link as _link


def _finish(new, func):
    ast.fix_missing_locations(new)
    _link(new)
    new.parent = getattr(func, "parent", None)
    return new


def _blocks(st):
    for fld in ("body", "orelse", "finalbody"):
        v = getattr(st, fld, None)
        if isinstance(v, list) and not isinstance(
                st, (ast.FunctionDef, ast.ClassDef, ast.Lambda)):
            yield fld, v
    if isinstance(st, ast.Try):
        for h in st.handlers:
            yield "body", h.body


def _unconditional_walrus(expr):
    """NamedExpr nodes of `expr` that are evaluated whenever `expr` is
    (not in the right operand of and/or, a conditional expression branch,
    a lambda or a comprehension)"""
    out = []

    def rec(e):
        if isinstance(e, ast.NamedExpr):
            rec(e.value)
            out.append(e)
            return
        if isinstance(e, ast.BoolOp):
            rec(e.values[0])
            return
        if isinstance(e, ast.IfExp):
            rec(e.test)
            return
        if isinstance(e, (ast.Lambda, ast.ListComp, ast.SetComp,
                          ast.DictComp, ast.GeneratorExp)):
            return
        for c in ast.iter_child_nodes(e):
            rec(c)
    rec(expr)
    return out


def dewalrus(func):
    """copy of `func` in which ``if (x := E) ...:`` / ``y = f(x := E)`` are
    rewritten to ``x = E`` followed by the statement using ``x``"""
    new = _copy.deepcopy(func)

    class Repl(ast.NodeTransformer):
        def __init__(self, targets):
            self.t = targets

        def visit_NamedExpr(self, node):
            self.generic_visit(node)
            if any(node is t for t in self.t):
                return ast.copy_location(ast.Name(id=node.target.id,
                                                  ctx=ast.Load()), node)
            return node

    def process(stmts):
        out = []
        for st in stmts:
            for fld, blk in list(_blocks(st)):
                if isinstance(st, ast.Try) and fld == "body" \
                        and blk is not st.body:
                    blk[:] = process(blk)
                else:
                    setattr(st, fld, process(blk)) if blk is getattr(
                        st, fld, None) else blk.__setitem__(
                        slice(None), process(blk))
            part = None
            if isinstance(st, ast.If):
                part = "test"
            elif isinstance(st, (ast.Assign, ast.Expr, ast.Return,
                                 ast.AugAssign)) and getattr(
                    st, "value", None) is not None:
                part = "value"
            if part is not None:
                ws = _unconditional_walrus(getattr(st, part))
                for w in ws:
                    out.append(ast.copy_location(ast.Assign(
                        targets=[ast.Name(id=w.target.id, ctx=ast.Store())],
                        value=w.value), st))
                if ws:
                    setattr(st, part, Repl(ws).visit(getattr(st, part)))
            out.append(st)
        return out
    new.body = process(new.body)
    return _finish(new, func)


class _Renamer(ast.NodeTransformer):
    def __init__(self, mapping):
        self.m = mapping

    def visit_Name(self, node):
        if node.id in self.m:
            return ast.copy_location(ast.Name(id=self.m[node.id],
                                              ctx=node.ctx), node)
        return node

    def visit_FunctionDef(self, node):
        return node

    visit_Lambda = visit_FunctionDef


def inline_module_helpers(repo, rel, func, depth=2):
    """copy of `func` in which calls of simple module-level functions of the
    same file (single trailing ``return``, plain parameters) that occur in
    an expression / assignment / return statement are replaced by the
    helper's body (parameters bound by assignments, locals renamed
    ``<name>_h<k>``) and its return expression"""
    new = _copy.deepcopy(func)
    counter = [0]

    def helper_of(call):
        if not isinstance(call.func, ast.Name):
            return None
        h = repo.func(rel, call.func.id, missing_ok=True)
        if h is None or h.name == func.name or not isinstance(
                h.parent, ast.Module):
            return None
        a = h.args
        if a.vararg or a.kwarg or a.posonlyargs or h.decorator_list:
            return None
        rets = [n for n in walk(h) if isinstance(n, ast.Return)]
        if len(rets) != 1 or h.body[-1] is not rets[0] \
                or rets[0].value is None:
            return None
        if any(isinstance(n, (ast.Yield, ast.YieldFrom, ast.Global,
                              ast.Nonlocal, ast.Await)) for n in walk(h)):
            return None
        if any(isinstance(s, ast.Starred) for s in call.args) or any(
                k.arg is None for k in call.keywords):
            return None
        return h

    def expand(call, h):
        counter[0] += 1
        tag = f"_h{counter[0]}"
        params = [x.arg for x in h.args.args + h.args.kwonlyargs]
        bound = {}
        for p, v in zip([x.arg for x in h.args.args], call.args):
            bound[p] = v
        for k in call.keywords:
            if k.arg not in params or k.arg in bound:
                return None
            bound[k.arg] = k.value
        pos = h.args.args
        for p, d in zip(pos[len(pos) - len(h.args.defaults):],
                        h.args.defaults):
            bound.setdefault(p.arg, d)
        for p, d in zip(h.args.kwonlyargs, h.args.kw_defaults):
            if d is not None:
                bound.setdefault(p.arg, d)
        if set(bound) != set(params):
            return None
        locs = set(params)
        for n in walk(h):
            if isinstance(n, ast.Name) and isinstance(n.ctx, ast.Store):
                locs.add(n.id)
        ren = _Renamer({k: k + tag for k in locs})
        body = [ast.Assign(targets=[ast.Name(id=p + tag, ctx=ast.Store())],
                           value=_copy.deepcopy(bound[p])) for p in params]
        hb = _copy.deepcopy(h.body)
        doc = hb and isinstance(hb[0], ast.Expr) and isinstance(
            hb[0].value, ast.Constant) and isinstance(hb[0].value.value, str)
        for st in hb[1 if doc else 0:-1]:
            body.append(ren.visit(st))
        ret = ren.visit(hb[-1]).value
        return body, ret

    def process(stmts, level):
        out = []
        for st in stmts:
            for fld, blk in _blocks(st):
                blk[:] = process(blk, level)
            if isinstance(st, (ast.Expr, ast.Assign, ast.Return)) \
                    and st.value is not None and level < depth:
                pre = []

                class T(ast.NodeTransformer):
                    def visit_Lambda(self, node):
                        return node

                    visit_ListComp = visit_SetComp = visit_DictComp = \
                        visit_GeneratorExp = visit_Lambda

                    def visit_Call(self, node):
                        self.generic_visit(node)
                        h = helper_of(node)
                        if h is None:
                            return node
                        ex = expand(node, h)
                        if ex is None:
                            return node
                        body, ret = ex
                        pre.extend(process(body, level + 1))
                        return ast.copy_location(ret, node)
                st.value = T().visit(st.value)
                for p in pre:
                    ast.copy_location(p, st)
                    for x in ast.walk(p):
                        if not hasattr(x, "lineno"):
                            ast.copy_location(x, st)
                out.extend(pre)
            out.append(st)
        return out
    new.body = process(new.body, 0)
    new.inlined = counter[0]
    return _finish(new, func)


def run_straight(func, env, consts=None):
    """interpret a function whose body consists of if / return / raise /
    expression statements for one assignment of its parameters:
    -> ("return", expr node) | ("raise", stmt) | ("end", None)"""
    full = dict(consts or {})
    full.update(env)

    def block(stmts):
        for st in stmts:
            if isinstance(st, ast.If):
                r = block(st.body if Mini(full).ev(st.test) else st.orelse)
                if r is not None:
                    return r
            elif isinstance(st, ast.Return):
                return "return", st.value
            elif isinstance(st, ast.Raise):
                return "raise", st
            elif isinstance(st, (ast.Expr, ast.Pass)):
                continue
            else:
                raise Unknown(txt(st)[:60])
        return None
    return block(func.body) or ("end", None)
