"""A plugin feature is removed and another one registered under the same name
(same requirements, different recipe): a long-lived dataset keeps serving the
data of the removed recipe, a fresh dataset computes the new one."""
import sys
import numpy as np
import dclab
from dclab.rtdc_dataset.feat_anc_plugin.plugin_feature import (
    PlugInFeature, remove_plugin_feature)

def mk(factor, version):
    def method(ds):
        return {"circ_times_x": np.asarray(ds["deform"]) * factor}
    return {"method": method, "description": "t", "long description": "t",
            "feature names": ["circ_times_x"], "feature labels": ["c x"],
            "features required": ["deform"], "config required": [],
            "method check required": lambda x: True,
            "scalar feature": [True], "version": version}

def ds_new():
    n = 20
    return dclab.new_dataset({"deform": np.linspace(.01, .2, n),
                              "area_um": np.linspace(20, 200, n)})
ds = ds_new()
pf = PlugInFeature("circ_times_x", mk(2.0, "0.1.0"))
a = np.array(ds["circ_times_x"])
remove_plugin_feature(pf)
pf2 = PlugInFeature("circ_times_x", mk(10.0, "0.2.0"))
b = np.array(ds["circ_times_x"])          # long-lived dataset
c = np.array(ds_new()["circ_times_x"])    # fresh dataset
remove_plugin_feature(pf2)
print("long-lived", b[:3], "fresh", c[:3])
sys.exit(0 if np.allclose(b, c) else 1)
