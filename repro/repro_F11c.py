"""F11c: meta_parse.fintlist drops every zero from a list of integers
(`if it:`), so the polygon filter with unique id 0 - the first one created
in a session - vanishes from [filtering] 'polygon filters' whenever the list
passes the converter (item assignment, Configuration.copy(), update)."""
import sys
import warnings

import numpy as np

import dclab
from dclab.definitions import meta_parse

fails = []
out = meta_parse.fintlist([0, 1, 2])
print("fintlist([0, 1, 2]) ->", out)
if out != [0, 1, 2]:
    fails.append("fintlist not the identity on a list of ints")
print("fintlist('[]') ->", meta_parse.fintlist("[]"),
      " fintlist('0, 1,') ->", meta_parse.fintlist("0, 1,"))
if meta_parse.fintlist("[]") != [] or meta_parse.fintlist("0, 1,") != [0, 1]:
    fails.append("string forms")

warnings.simplefilter("ignore")
ds = dclab.new_dataset({"deform": np.linspace(0.01, 0.02, 10),
                        "area_um": np.linspace(10, 20, 10)})
dclab.PolygonFilter.clear_all_filters()
pf = dclab.PolygonFilter(axes=("area_um", "deform"),
                         points=[[12, 0.011], [18, 0.011],
                                 [18, 0.019], [12, 0.019]])
print("polygon filter unique id:", pf.unique_id)
ds.config["filtering"]["polygon filters"] = [pf.unique_id]
ds.apply_filter()
print("config after assignment:", ds.config["filtering"]["polygon filters"],
      "events selected:", int(ds.filter.all.sum()), "of", len(ds))
if ds.config["filtering"]["polygon filters"] != [pf.unique_id]:
    fails.append("assignment drops id 0")
if ds.filter.all.sum() == len(ds):
    fails.append("polygon filter not applied")
ds.polygon_filter_add(pf) if pf.unique_id not in ds.config["filtering"][
    "polygon filters"] else None
cp = ds.config.copy()
print("copy of the configuration:", cp["filtering"]["polygon filters"])
if cp["filtering"]["polygon filters"] != [pf.unique_id]:
    fails.append("Configuration.copy drops id 0")
if fails:
    print("FAIL", fails)
    sys.exit(1)
print("PASS")
