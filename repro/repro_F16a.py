"""F16a: downsample_grid pads with invalid events without bounding the number
drawn by the number of invalid events available: a request larger than the
data (remove_invalid=False, the default) raises ValueError instead of
returning all events.  (dclab/downsampling.pyx, compiled; Cython is not
available here, so this is recorded, not repaired.)"""
import numpy as np
from dclab import downsampling
import dclab

ok = True
a = np.arange(100, dtype=float)
b = a.copy()
for label, aa, samples in [
        ("100 valid, request 150", a, 150),
        ("95 valid + 5 nan, request 150", np.r_[a[:95], [np.nan] * 5], 150)]:
    try:
        asd, bsd, idx = downsampling.downsample_grid(aa, b, samples=samples,
                                                     ret_idx=True)
        print(label, "->", asd.size, "events")
    except ValueError as e:
        ok = False
        print(label, "-> ValueError:", e)

# dataset level
ds = dclab.new_dataset({"area_um": np.linspace(10, 100, 50),
                        "deform": np.linspace(.01, .1, 50)})
try:
    x, y = ds.get_downsampled_scatter(downsample=80)
    print("get_downsampled_scatter(downsample=80) ->", x.size)
except ValueError as e:
    ok = False
    print("get_downsampled_scatter(downsample=80) -> ValueError:", e)
assert ok, "F16a reproduced"
