"""F07b: BasinProxyFeature forwards shape/size to the unmapped origin."""
import pathlib, sys, tempfile
import h5py, numpy as np
import dclab
import dclab.rtdc_dataset.writer as w
w.version = "0.62.7"
from dclab.rtdc_dataset import RTDCWriter

td = pathlib.Path(tempfile.mkdtemp(prefix="f07b_"))
origin = td / "origin.rtdc"
rng = np.random.default_rng(1)
with RTDCWriter(origin) as hw:
    hw.store_metadata({"experiment": {"sample": "s", "run index": 1,
                                      "run identifier": "rid"},
                       "imaging": {"pixel size": 0.34}})
    hw.store_feature("deform", np.linspace(0.01, 0.02, 10))
    hw.store_feature("image", rng.integers(0, 255, (10, 8, 8), dtype=np.uint8))
ref = td / "ref.rtdc"
bmap = np.array([1, 3, 3, 7], dtype=np.uint64)
with RTDCWriter(ref) as hw:
    hw.store_metadata({"experiment": {"sample": "s", "run index": 1,
                                      "run identifier": "rid-x"},
                       "imaging": {"pixel size": 0.34}})
    hw.store_feature("area_um", np.arange(4, dtype=float))
    hw.store_basin(basin_name="o", basin_type="file", basin_format="hdf5",
                   basin_locs=[origin], basin_map=bmap, verify=False)
ok = True
with dclab.new_dataset(ref) as ds, dclab.new_dataset(origin) as do:
    assert len(ds) == 4
    for feat in ["image", "deform"]:
        fo = ds[feat]
        size = getattr(fo, "size", None)
        print(feat, type(fo).__name__, "len", len(fo), "shape", fo.shape,
              "size", size)
        if fo.shape[0] != len(fo):
            ok = False
        if size is not None and size != int(np.prod(fo.shape)):
            ok = False
        assert np.all(np.asarray(fo[:]) == do[feat][:][bmap.astype(int)])
    out = td / "exp.rtdc"
    ds.export.hdf5(out, features=["area_um", "image", "deform"], filtered=False)
with h5py.File(out) as h5:
    n = {k: h5["events"][k].shape[0] for k in h5["events"]}
    print("exported rows", n, "event count", h5.attrs["experiment:event count"])
    if len(set(n.values())) != 1:
        ok = False
print("PASS" if ok else "FAIL: shape[0] != len / exported datasets differ in length")
sys.exit(0 if ok else 1)
