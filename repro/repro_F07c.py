"""F07c: export of a hierarchy child with basins=True copies the *parent's*
upstream basin definitions with a map relative to the child's own events."""
import pathlib, sys, tempfile
import h5py, numpy as np
import dclab
import dclab.rtdc_dataset.writer as w
w.version = "0.62.7"
from dclab.rtdc_dataset import RTDCWriter

td = pathlib.Path(tempfile.mkdtemp(prefix="f07c_"))
origin = td / "origin.rtdc"
with RTDCWriter(origin) as hw:
    hw.store_metadata({"experiment": {"sample": "s", "run index": 1,
                                      "run identifier": "rid"},
                       "imaging": {"pixel size": 0.34}})
    hw.store_feature("deform", np.linspace(0.01, 0.02, 10))
    hw.store_feature("area_um", np.arange(100, 110, dtype=float))
# parent file: has deform only; area_um comes from the basin "origin"
parent = td / "parent.rtdc"
with RTDCWriter(parent) as hw:
    hw.store_metadata({"experiment": {"sample": "s", "run index": 1,
                                      "run identifier": "rid"},
                       "imaging": {"pixel size": 0.34}})
    hw.store_feature("deform", np.linspace(0.01, 0.02, 10))
    hw.store_basin(basin_name="o", basin_type="file", basin_format="hdf5",
                   basin_locs=[origin], verify=False)
ok = True
for filtered in (True, False):
    with dclab.new_dataset(parent) as ds:
        assert np.all(ds["area_um"] == np.arange(100, 110))
        ds.config["filtering"]["deform min"] = 0.0135
        ds.config["filtering"]["deform max"] = 0.0185
        ds.apply_filter()
        sel = np.where(ds.filter.all)[0]
        child = dclab.new_dataset(ds)
        child.apply_filter()
        want = np.array(child["area_um"])
        assert np.all(want == 100 + sel)
        out = td / f"child_{filtered}.rtdc"
        child.export.hdf5(out, features=["deform"], filtered=filtered,
                          basins=True)
    with dclab.new_dataset(out) as de:
        try:
            got = np.array(de["area_um"])
        except BaseException as e:
            got = repr(e)
        print(f"filtered={filtered}: selected parent events {sel}, "
              f"area_um expected {want}, exported file delivers {got}")
        if not (isinstance(got, np.ndarray) and got.shape == want.shape
                and np.all(got == want)):
            ok = False
print("PASS" if ok else "FAIL: upstream basin of a hierarchy child maps to the wrong events")
sys.exit(0 if ok else 1)
