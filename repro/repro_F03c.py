"""Filter.update: a feature that becomes available in an application that
is refused (ValueError: one bound only) counts as 'known' afterwards; its
range, recorded earlier, is never evaluated."""
import sys
import numpy as np
import dclab

ds = dclab.new_dataset({"deform": np.linspace(0.01, 0.5, 50),
                        "area_um": np.linspace(10, 500, 50)})
dclab.register_temporary_feature("f03c_temp")
cfg = ds.config["filtering"]
cfg["f03c_temp min"] = 0.2
cfg["f03c_temp max"] = 0.4
ds.apply_filter()                      # range on a feature that is not there
dclab.set_temporary_feature(ds, "f03c_temp", np.linspace(0, 1, 50))
cfg["area_um min"] = 100               # one bound only
try:
    ds.filter.update(ds)
except ValueError as e:
    print("refused:", e)
cfg["area_um max"] = 400
ds.apply_filter()
got = int(ds.filter.all.sum())
fresh = dclab.new_dataset({"deform": ds["deform"], "area_um": ds["area_um"]})
dclab.set_temporary_feature(fresh, "f03c_temp", np.linspace(0, 1, 50))
fresh.config["filtering"].update(dict(cfg))
fresh.apply_filter()
want = int(fresh.filter.all.sum())
print("incremental:", got, "fresh:", want)
if got != want:
    print("DEFECT: the range of the new feature was never applied")
    sys.exit(1)
print("OK")
