"""F09 (C09, R9.1): dclab.cli.join prunes `features` while iterating it.

`for feat in features: ... features.remove(feat)` skips the element after a
removed one.  An input that lacks two features which are adjacent in the
sorted feature list keeps the second one -> KeyError while joining.

exit 0: join succeeds and the joined file has the common features only
exit 1: defect present
"""
import pathlib
import shutil
import sys
import tempfile
import warnings

import numpy as np

import dclab
import dclab.rtdc_dataset.writer as w
from dclab import cli, new_dataset

w.version = "0.62.7"   # the untagged build version makes files un-reopenable


def make(path, feats, time="12:00:00", n=7):
    rng = np.random.default_rng(1)
    with dclab.RTDCWriter(path) as hw:
        hw.store_metadata({
            "experiment": {"date": "2020-01-01", "time": time,
                           "run index": 1, "sample": "s", "event count": n},
            "imaging": {"frame rate": 2000., "pixel size": .34,
                        "roi size x": 20, "roi size y": 10,
                        "flash duration": 2.0,
                        "roi position x": 1, "roi position y": 1},
            "setup": {"channel width": 20., "chip region": "channel",
                      "flow rate": .04, "medium": "CellCarrier",
                      "identifier": "zz", "module composition": "a",
                      "software version": "dclab-test"},
        })
        for f in feats:
            if f == "frame":
                hw.store_feature(f, np.arange(n) * 10 + 5)
            elif f == "time":
                hw.store_feature(f, np.arange(n) * 0.005)
            else:
                hw.store_feature(f, rng.random(n) + 1)


def main():
    td = pathlib.Path(tempfile.mkdtemp(prefix="f09_"))
    try:
        all_feats = ["area_cvx", "area_msd", "area_ratio", "deform", "time",
                     "frame"]
        make(td / "a.rtdc", all_feats, time="12:00:00")
        # the second file lacks area_msd and area_ratio (adjacent when sorted)
        make(td / "b.rtdc", ["area_cvx", "deform", "time", "frame"],
             time="12:00:10")
        with warnings.catch_warnings():
            warnings.simplefilter("ignore")
            try:
                out = cli.join(paths_in=[td / "a.rtdc", td / "b.rtdc"],
                               path_out=td / "out.rtdc", ret_path=True)
            except KeyError as e:
                print("FAIL: join raised KeyError", e)
                return 1
        with new_dataset(out) as ds:
            got = sorted(ds.features_innate)
            ok = got == ["area_cvx", "deform", "frame", "time"] \
                and len(ds) == 14
            print("features in joined file:", got, "events:", len(ds))
            print("PASS" if ok else "FAIL: wrong feature set / event count")
            return 0 if ok else 1
    finally:
        shutil.rmtree(td, ignore_errors=True)


if __name__ == "__main__":
    sys.exit(main())
