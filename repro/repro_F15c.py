"""PolygonFilter.save_all(path): every filter re-opened the path in append
mode while the previous (buffered, un-flushed) handle was still alive; a
filter longer than the 8 KiB buffer reached the file before its predecessor."""
import pathlib, sys, tempfile
import numpy as np
from dclab.polygon_filter import PolygonFilter
PolygonFilter.clear_all_filters()
t = np.linspace(0, 2*np.pi, 400, endpoint=False)
star = np.c_[np.cos(t)*(1+.5*np.sin(7*t)), np.sin(t)*(1+.5*np.sin(7*t))]
fs = [PolygonFilter(axes=("area_um", "deform"), points=[[0, 0], [1, 0], [1, 1], [0, 1]], name="square"),
      PolygonFilter(axes=("area_um", "deform"), points=star, name="star"),
      PolygonFilter(axes=("area_um", "deform"), points=[[0, 0], [2, 0], [0, 2]], name="tri")]
want = [(f.name, f.unique_id, len(f.points)) for f in fs]
p = pathlib.Path(tempfile.mkdtemp()) / "all.poly"
PolygonFilter.save_all(p)
PolygonFilter.clear_all_filters()
got = [(f.name, f.unique_id, len(f.points)) for f in PolygonFilter.import_all(p)]
print("want", want); print("got ", got)
sys.exit(0 if [w[0::2] for w in want] == [g[0::2] for g in got] else 1)
