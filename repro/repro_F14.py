"""F14: a dataset of a non-local format (local basins not allowed) opens a
local file through a basin whose definition declares type "remote" or
"internal" together with format "hdf5"."""
import json, pathlib, sys, tempfile, warnings
import h5py, numpy as np
import dclab
import dclab.rtdc_dataset.writer as w
w.version = "0.62.7"
from dclab.rtdc_dataset import RTDCWriter
from dclab.rtdc_dataset.fmt_hdf5 import RTDC_HDF5
from dclab.util import hashobj


class RTDC_Netsim(RTDC_HDF5):
    """stands for RTDC_HTTP / RTDC_S3: format != 'hdf5'"""


td = pathlib.Path(tempfile.mkdtemp(prefix="f14_"))
secret = td / "secret.rtdc"
with RTDCWriter(secret) as hw:
    hw.store_metadata({"experiment": {"sample": "s", "run index": 1,
                                      "run identifier": "rid"},
                       "imaging": {"pixel size": 0.34}})
    hw.store_feature("deform", np.linspace(0.01, 0.02, 10))
    hw.store_feature("area_um", np.linspace(100, 200, 10))

bad = 0
for btype in ["file", "remote", "internal"]:
    ref = td / f"ref_{btype}.rtdc"
    with RTDCWriter(ref) as hw:
        hw.store_metadata({"experiment": {"sample": "s", "run index": 1,
                                          "run identifier": "rid"},
                           "imaging": {"pixel size": 0.34}})
        hw.store_feature("deform", np.linspace(0.01, 0.02, 10))
        bdef = {"description": None, "format": "hdf5", "name": "x",
                "type": btype, "features": None, "mapping": "same"}
        if btype == "remote":
            bdef["urls"] = [str(secret)]
        else:
            bdef["paths"] = [str(secret)]
        lines = json.dumps(bdef, indent=2).split("\n")
        hw.write_text(hw.h5file.require_group("basins"), hashobj(lines), lines)
    with warnings.catch_warnings():
        warnings.simplefilter("ignore")
        with RTDC_Netsim(ref) as ds:
            assert ds.format == "netsim" and not ds._local_basins_allowed
            fb = ds.features_basin
            leaked = "area_um" in fb
            val = None
            if "area_um" in ds:
                val = ds["area_um"][0]
            print(f"declared type {btype!r}: features_basin={fb} "
                  f"area_um[0]={val}")
            if leaked or val is not None:
                bad += 1
print("FAIL: local file opened by a non-local format in %d case(s)" % bad
      if bad else "PASS: no local basin followed")
sys.exit(1 if bad else 0)
