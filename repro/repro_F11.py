"""F11: a boolean [qpi] 'scale to filter' written by RTDCWriter cannot be
read back (np.bool_ is rejected by meta_parse.fboolorfloat)."""
import pathlib
import sys
import tempfile
import warnings

import numpy as np

import dclab
import dclab.rtdc_dataset.writer as w
from dclab.definitions import meta_parse

w.version = "0.62.7"   # untagged build version would make the file unreadable

fails = []
# 1. idempotence on declared output types
for val in (True, np.bool_(True), np.bool_(False), 1.5, np.float64(1.5)):
    try:
        out = meta_parse.fboolorfloat(val)
        print("fboolorfloat(%r) -> %r" % (val, out))
    except ValueError as e:
        print("fboolorfloat(%r) raises ValueError: %s" % (val, e))
        fails.append(repr(val))

# 2. write / read round trip
with tempfile.TemporaryDirectory() as td:
    path = pathlib.Path(td) / "t.rtdc"
    with dclab.RTDCWriter(path) as hw:
        hw.store_metadata({"qpi": {"scale to filter": True},
                           "experiment": {"sample": "x", "run index": 1}})
        hw.store_feature("deform", np.linspace(0.01, 0.02, 10))
    try:
        with warnings.catch_warnings():
            warnings.simplefilter("ignore")
            ds = dclab.new_dataset(path)
        val = ds.config["qpi"]["scale to filter"]
        print("round trip value:", repr(val))
        if val is not True and val != True:  # noqa: E712
            fails.append("roundtrip value")
    except ValueError as e:
        print("re-opening the file raises ValueError:", e)
        fails.append("roundtrip")

if fails:
    print("FAIL", fails)
    sys.exit(1)
print("PASS")
