import sys, warnings
warnings.simplefilter("ignore")
sys.path.insert(0, "/repo/tests")
from helper_methods import retrieve_data
import numpy as np, dclab
ds = dclab.new_dataset(retrieve_data("fmt-hdf5_fl_2018.zip"))
a = np.asarray(ds["deform"]); first = float(a[0])
print("writeable:", a.flags.writeable)
try:
    a[0] = 99.0
except ValueError as e:
    print("cannot modify:", e)
print("H5ScalarEvent later read:", float(ds["deform"][0]), "expected", first)
b = ds["area_um"][:]; f2 = float(b[1])
try:
    b[1] = -5
except ValueError as e: print("slice not writable")
print("slice route later read:", float(ds["area_um"][1]), "expected", f2)
ch = dclab.new_dataset(ds)
c = np.asarray(ch["deform"]); f3 = float(c[2])
try: c[2] = 77.0
except ValueError: print("child not writable")
print("ChildScalar later read:", float(ch["deform"][2]), "expected", f3)
