"""F08a (C08, R8.1): rtdc_copy (dclab-compress/-repack/-condense) drops the HDF5
attributes of tables (e.g. COLOR_* attributes; RTDCWriter.store_table preserves them),
while every other copy route (features, logs, file metadata) preserves them.

exit 0: attributes preserved, exit 1: defect reproduced
"""
import pathlib
import sys
import tempfile

import h5py
import numpy as np
import dclab.rtdc_dataset.writer as w
from dclab import cli

w.version = "0.62.7"
td = pathlib.Path(tempfile.mkdtemp())
p_in, p_out = td / "in.rtdc", td / "out.rtdc"
with w.RTDCWriter(p_in) as hw:
    hw.store_metadata({"experiment": {"sample": "s", "run index": 1},
                       "imaging": {"pixel size": 0.34},
                       "setup": {"channel width": 20, "chip region": "channel",
                                 "flow rate": 0.04}})
    hw.store_feature("deform", np.linspace(.01, .02, 10))
    hw.store_feature("area_um", np.linspace(10, 20, 10))
    tab = np.zeros(4, dtype=[("time", float), ("temp", float)])
    hw.store_table("sensors", np.rec.array(tab))
    # table metadata (RTDCWriter.store_table itself copies such attributes
    # when it is given an h5py.Dataset)
    hw.h5file["tables/sensors"].attrs["COLOR_temp"] = "red"
    hw.h5file["tables/sensors"].attrs["unit_time"] = "s"
cli.compress(path_in=p_in, path_out=p_out)
with h5py.File(p_in) as a, h5py.File(p_out) as b:
    sa = dict(a["tables/sensors"].attrs)
    sb = dict(b["tables/sensors"].attrs)
    print("input table attributes :", sa)
    print("output table attributes:", sb)
    same_data = np.all(a["tables/sensors"][:] == b["tables/sensors"][:])
if sa != sb or not same_data:
    print("DEFECT: dclab-compress lost the table attributes")
    sys.exit(1)
print("ok")
