import sys
sys.path.insert(0, "/repo")
from dclab.cached import Cache

calls = []
@Cache
def func(*args, **kwargs):
    """doc"""
    calls.append((args, kwargs))
    return (args, tuple(sorted(kwargs.items())))

Cache.clear_cache()
r1 = func(a=1)
r2 = func("a", 1)
print("f(a=1)    ->", r1)
print("f('a', 1) ->", r2, "| computations:", len(calls))
ok = r2 == (("a", 1), ()) and len(calls) == 2
print("OK" if ok else "VIOLATION: f('a', 1) is served the cached result of f(a=1)")
sys.exit(0 if ok else 1)
