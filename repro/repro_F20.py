"""F20 (C20/R20.1): running mean in RTDCWriter.write_ndarray is weighted
with raw sizes although partial means are nanmeans."""
import pathlib
import sys
import tempfile

import numpy as np

import dclab
import dclab.rtdc_dataset.writer as w

w.version = "0.62.7"
nan = np.nan
bad = 0
for parts in ([[1, nan, nan, nan], [3]],
              [[nan, nan], [3, 5]],
              [[1, 2], [nan, nan], [6]],
              [[1., 2., 3.], [4., 5.]]):
    path = pathlib.Path(tempfile.mkdtemp()) / "f20.rtdc"
    for p in parts:
        with w.RTDCWriter(path, mode="append") as hw:
            hw.store_feature("deform", np.array(p, dtype=float))
    with dclab.new_dataset(path) as ds:
        import warnings
        with warnings.catch_warnings():
            warnings.simplefilter("ignore")
            data = ds["deform"][:]
            rep = (ds["deform"].min(), ds["deform"].max(), ds["deform"].mean())
            true = (np.nanmin(data), np.nanmax(data), np.nanmean(data))
    ok = np.allclose(rep, true, equal_nan=False)
    print(parts, "reported", rep, "true", true, "OK" if ok else "WRONG")
    bad += not ok
if bad:
    print("FAIL")
    sys.exit(1)
print("PASS")
