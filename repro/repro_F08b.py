"""F08b (C08, R8.6): h5ds_copy ignores empty datasets and returns None; rtdc_copy
dereferences that result for scalar features (`dst.attrs`).  An input with an
empty (zero-event), not zstd-compressed scalar feature dataset makes
dclab-compress / -repack / -condense crash with AttributeError.

exit 0: task completes, exit 1: defect reproduced
"""
import pathlib
import sys
import tempfile

import h5py
from dclab import cli

td = pathlib.Path(tempfile.mkdtemp())
p_in, p_out = td / "in.rtdc", td / "out.rtdc"
with h5py.File(p_in, "w") as h:
    h.attrs["experiment:event count"] = 0
    h.attrs["experiment:sample"] = "aborted measurement"
    h.attrs["imaging:pixel size"] = 0.34
    h.attrs["setup:channel width"] = 20.0
    ev = h.require_group("events")
    # resizable datasets created up front by a recording software, no events
    ev.create_dataset("deform", shape=(0,), dtype=float, maxshape=(None,),
                      chunks=(100,))
    ev.create_dataset("area_um", shape=(0,), dtype=float, maxshape=(None,),
                      chunks=(100,))
try:
    cli.repack(path_in=p_in, path_out=p_out)
except AttributeError as e:
    print("DEFECT: dclab-repack crashed:", repr(e))
    sys.exit(1)
with h5py.File(p_out) as h:
    print("output attributes:", dict(h.attrs))
    print("output events:", list(h.get("events", {})))
print("ok")
