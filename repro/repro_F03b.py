import sys, warnings
sys.path.insert(0, "/repo")
import numpy as np
import dclab
warnings.simplefilter("ignore")
ds = dclab.new_dataset({"deform": np.linspace(0.01, 0.2, 50), "area_um": np.linspace(10, 200, 50)})
dclab.register_temporary_feature("my_feat")
ds.config["filtering"]["my_feat min"] = 10
ds.config["filtering"]["my_feat max"] = 20
ds.apply_filter()            # range on a feature the dataset does not have yet: ignored
print("before the feature exists:", ds.filter.all.sum())
dclab.set_temporary_feature(ds, "my_feat", np.arange(50, dtype=float))
ds.apply_filter()
got = int(ds.filter.all.sum())
fresh = dclab.new_dataset({"deform": np.linspace(0.01, 0.2, 50), "area_um": np.linspace(10, 200, 50)})
dclab.set_temporary_feature(fresh, "my_feat", np.arange(50, dtype=float))
fresh.config["filtering"]["my_feat min"] = 10
fresh.config["filtering"]["my_feat max"] = 20
fresh.apply_filter()
want = int(fresh.filter.all.sum())
print("incremental:", got, "fresh dataset with the same settings and data:", want)
sys.exit(0 if got == want else 1)
