import sys
sys.path.insert(0, "/repo")
from dclab import http_utils

class Resp:
    def __init__(self, content, n):
        self.content = content; self.ok = True; self.status_code = 200
        self.reason = "OK"; self.headers = {"content-length": str(n), "etag": '"abcdefg"'}
class Ses:
    def __init__(self, blob): self.blob = blob; self.log = []
    def get(self, url, headers=None, **kw):
        rng = (headers or {}).get("Range"); self.log.append(rng)
        if rng is None: return Resp(self.blob, len(self.blob))
        a, b = rng[6:].split("-"); a = int(a); b = int(b)
        if b < a:   # RFC 7233: invalid byte-range-spec is ignored -> full body
            return Resp(self.blob, len(self.blob))
        return Resp(self.blob[a:b+1], len(self.blob))
    def close(self): pass
blob = bytes(range(8))
ses = Ses(blob)
http_utils.session_cache.get_session = lambda url: ses
f = http_utils.HTTPFile("http://x/r", chunk_size=4, keep_chunks=2)
data = f.read()
print("data ok", data == blob, "requests", ses.log)
bad = [r for r in ses.log if r and int(r[6:].split("-")[1]) < int(r[6:].split("-")[0])]
print("invalid range requests:", bad, "cache sizes", {k: len(v) for k, v in f.cache.items()})
sys.exit(1 if bad else 0)
