"""F15b: PolygonFilter._load splits every line at each "=": a polygon whose
name contains "=" makes the whole .poly file unloadable (ValueError)."""
import pathlib, tempfile
from dclab.polygon_filter import PolygonFilter
d = pathlib.Path(tempfile.mkdtemp())
pts = [[0.0, 0.0], [1.0, 0.0], [1.0, 1.0]]
# F15b: a name containing "=" must survive as well
PolygonFilter.clear_all_filters()
pf = PolygonFilter(axes=("area_um", "deform"), points=pts, name="gate: deform=0.1")
pf.save(d / "n.poly")
PolygonFilter.clear_all_filters()
pf3 = PolygonFilter.import_all(d / "n.poly")[0]
assert pf3.name == "gate: deform=0.1", pf3.name
print("OK name")
