"""F02 (C02, R2.1/R2.3): Export.hdf5 limits the exported selection to the
shortest feature (LimitingExportSizeWarning, `filter_arr[l_min:] = False`) and
then hands every feature to `store_filtered_feature`.  All non-scalar branches
select with the integer `indices`, but the scalar branch selects with the
boolean mask `data[filtarr]`, which numpy only accepts when mask and feature
have the same length.  A file whose scalar feature is shorter than the event
count (recording interrupted while the columns were written) can therefore not
be exported at all - with or without filtering.

exit 0: the export succeeds and contains the common events
exit 1: defect present
"""
import pathlib
import shutil
import sys
import tempfile
import warnings

import h5py
import numpy as np

import dclab
import dclab.rtdc_dataset.writer as w
from dclab import new_dataset

w.version = "0.62.7"   # the untagged build version makes files un-reopenable


def make(path, n=10, n_short=8):
    rng = np.random.default_rng(1)
    with dclab.RTDCWriter(path) as hw:
        hw.store_metadata({
            "experiment": {"date": "2020-01-01", "time": "12:00:00",
                           "run index": 1, "sample": "s", "event count": n},
            "imaging": {"frame rate": 2000., "pixel size": .34,
                        "roi size x": 20, "roi size y": 10,
                        "flash duration": 2.0,
                        "roi position x": 1, "roi position y": 1},
            "setup": {"channel width": 20., "chip region": "channel",
                      "flow rate": .04, "medium": "CellCarrier",
                      "identifier": "zz", "module composition": "a",
                      "software version": "dclab-test"},
        })
        for f in ["deform", "area_um", "time"]:
            hw.store_feature(f, rng.random(n) + 1)
    # one scalar column is shorter than the others
    with h5py.File(path, "a") as h5:
        short = h5["events/area_um"][:n_short]
        del h5["events/area_um"]
        h5["events/area_um"] = short


def main():
    td = pathlib.Path(tempfile.mkdtemp(prefix="f02_"))
    rc = 0
    try:
        make(td / "a.rtdc")
        for filtered in (True, False):
            with new_dataset(td / "a.rtdc") as ds:
                ds.filter.manual[3] = False
                ds.apply_filter()
                want = [i for i in range(8) if i != 3 or not filtered]
                a_def = ds["deform"][:][want]
                a_area = ds["area_um"][:][want]
                out = td / f"out_{filtered}.rtdc"
                try:
                    with warnings.catch_warnings():
                        warnings.simplefilter("ignore")
                        ds.export.hdf5(out, features=["deform", "area_um",
                                                      "time"],
                                       filtered=filtered)
                except IndexError as e:
                    print(f"FAIL (filtered={filtered}): IndexError: {e}")
                    rc = 1
                    continue
            with new_dataset(out) as do:
                ok = (len(do) == len(want)
                      and np.all(do["deform"][:] == a_def)
                      and np.all(do["area_um"][:] == a_area))
                print(f"filtered={filtered}: exported {len(do)} events",
                      "PASS" if ok else "FAIL: wrong events")
                rc = rc or (0 if ok else 1)
    finally:
        shutil.rmtree(td, ignore_errors=True)
    return rc


if __name__ == "__main__":
    sys.exit(main())
