"""H5Events._features publishes the memo before the listing is complete:
a transient I/O fault (range request of a remote file) while the empty
"trace" group is inspected leaves "trace" in the memoised feature list."""
import pathlib, tempfile, sys
import h5py, numpy as np
from dclab.rtdc_dataset.fmt_hdf5.events import H5Events

tmp = pathlib.Path(tempfile.mkdtemp()) / "a.rtdc"
with h5py.File(tmp, "w") as h:
    h.create_dataset("events/deform", data=np.linspace(0, 1, 10))
    h.create_group("events/trace")       # empty trace group


class FlakyGroup:
    def __init__(self, grp, state):
        self.grp, self.state = grp, state
    def keys(self):
        return self.grp.keys()
    def __contains__(self, k):
        return k in self.grp
    def __getitem__(self, k):
        if k == "trace" and not self.state["failed"]:
            self.state["failed"] = True
            raise OSError("transient: range request failed")
        return self.grp[k]


class FlakyFile:
    def __init__(self, h5):
        self.h5, self.state = h5, {"failed": False}
    def __getitem__(self, k):
        v = self.h5[k]
        return FlakyGroup(v, self.state) if k == "events" else v
    def __contains__(self, k):
        return k in self.h5


with h5py.File(tmp, "r") as h:
    local = H5Events(h)
    want = list(local._features)
    remote = H5Events(FlakyFile(h))
    try:
        remote._features
    except OSError as e:
        print("first access raised:", e)
    got = list(remote._features)
    print("local :", want)
    print("remote:", got)
    if got != want:
        print("DEFECT: the feature list differs after one transient fault")
        sys.exit(1)
print("OK")
