"""F11b: `ConfigurationDict |= mapping` (UserDict.__ior__) by-passes the
validating __setitem__: keys keep their case, unknown keys and None are
stored, values are not converted."""
import sys
import warnings

from dclab.rtdc_dataset.config import Configuration, ConfigurationDict

fails = []
with warnings.catch_warnings(record=True) as ws:
    warnings.simplefilter("always")
    ref = ConfigurationDict(section="setup")
    ref.update({"Channel Width": "20", "bogus": None, "medium": ""})
    d = ConfigurationDict(section="setup")
    d |= {"Channel Width": "20", "bogus": None, "medium": ""}
print("update():", dict(ref.data))
print("|=      :", dict(d.data))
if d.data != ref.data:
    fails.append("`|=` differs from update()")
cfg = Configuration()
with warnings.catch_warnings():
    warnings.simplefilter("ignore")
    cfg["setup"] |= {"Flow Rate": "0.04"}
val = cfg["setup"].get("flow rate")
print("cfg['setup'] |= {'Flow Rate': '0.04'} ->", repr(val))
if val != 0.04:
    fails.append("value not reachable / not converted")
if fails:
    print("FAIL", fails)
    sys.exit(1)
print("PASS")
