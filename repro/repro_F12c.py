import numpy as np, sys
from dclab import kde_methods
rng = np.random.RandomState(1)
x = rng.normal(size=200); y = rng.normal(size=200) * 3 + 5
xo3 = np.array([0.1, 0.5, -0.3]); yo3 = np.array([5.0, 6.0, 4.0])
f = kde_methods.kde_multivariate.func if hasattr(kde_methods.kde_multivariate, "func") else kde_methods.kde_multivariate
d3 = kde_methods.kde_multivariate(x, y, xout=xo3, yout=yo3)
d2 = kde_methods.kde_multivariate(x, y, xout=xo3[:2], yout=yo3[:2])
print("three positions:", d3)
print("first two alone:", d2)
if not np.allclose(d3[:2], d2):
    print("DEFECT: density at a position depends on how many positions are asked")
    sys.exit(1)
