"""F04 (C04, R4.6): the parent-change witness of HierarchyFilter hashes only the
*direct* parent's boolean filter array.  When a grandparent's filter changes so
that the direct parent selects the same positions (e.g. all True) of a
different set of events, the grandchild keeps its HierarchyFilter: a manual
exclusion sticks to the child *position* instead of the underlying measurement
event, and the wrong event is laundered into the stored root indices.

exit 0: behaves correctly, exit 1: defect reproduced
"""
import sys
import numpy as np
import dclab

root = dclab.new_dataset({"area_um": np.arange(10, dtype=float),
                          "deform": np.linspace(0.01, 0.1, 10)})
P = dclab.new_dataset(root)     # child
C = dclab.new_dataset(P)        # grandchild

root.filter.manual[5:] = False  # root events 0..4
C.rejuvenate()
assert list(C["area_um"][:]) == [0, 1, 2, 3, 4]
C.filter.manual[0] = False      # exclude underlying root event 0
C.rejuvenate()
assert C.filter._man_root_ids == [0]

root.filter.manual[:] = True
root.filter.manual[:5] = False  # root events 5..9: event 0 is hidden now
C.rejuvenate()
assert list(C["area_um"][:]) == [5, 6, 7, 8, 9]
print("C.filter.manual after the root switched to events 5..9:",
      C.filter.manual)
bad = not np.all(C.filter.manual)
C.rejuvenate()
print("stored root indices:", C.filter._man_root_ids)
bad = bad or C.filter._man_root_ids != [0]

root.filter.manual[:] = True
root.filter.manual[5:] = False  # back to root events 0..4
C.rejuvenate()
print("C.filter.manual after the root switched back:", C.filter.manual)
bad = bad or list(C.filter.manual) != [False, True, True, True, True]

if bad:
    print("DEFECT: the manual exclusion of root event 0 was applied to root "
          "event 5")
    sys.exit(1)
print("ok")
