"""PolygonFilter.remove(uid) used list.remove(p), which compares with
PolygonFilter.__eq__ (axes, points, inversion): the first filter that
looks like p was removed instead of p, and an earlier polygon with another
number of vertices made the comparison raise."""
import sys
from dclab.polygon_filter import PolygonFilter

PolygonFilter.clear_all_filters()
a = PolygonFilter(axes=("area_um", "deform"), points=[[0, 0], [1, 0], [1, 1]])
b = PolygonFilter(axes=("area_um", "deform"), points=[[0, 0], [1, 0], [1, 1]])
PolygonFilter.remove(b.unique_id)
left = [p.unique_id for p in PolygonFilter.instances]
ok = left == [a.unique_id]
print("two equal-looking filters, second removed -> left:", left)
PolygonFilter.clear_all_filters()
c = PolygonFilter(axes=("area_um", "deform"), points=[[0, 0], [1, 0], [1, 1]])
d = PolygonFilter(axes=("area_um", "deform"),
                  points=[[0, 0], [1, 0], [1, 1], [0, 1]])
try:
    PolygonFilter.remove(d.unique_id)
    left = [p.unique_id for p in PolygonFilter.instances]
    print("triangle + square, square removed -> left:", left)
    ok = ok and left == [c.unique_id]
except ValueError as e:
    print("triangle + square, removing the square raises:", e)
    ok = False
if not ok:
    print("DEFECT")
    sys.exit(1)
print("OK")
