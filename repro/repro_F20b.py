"""F20b (C20/R20.1): RTDCWriter.write_ndarray computes the min/max/mean
summaries of an appended block from the *input* array, not from what is
stored.  For features stored with an integer dtype (FEATURES_UINT32/64) the
input is cast on write, so the summaries describe values that are not in
the file."""
import pathlib
import sys
import tempfile
import warnings

import numpy as np

import dclab
import dclab.rtdc_dataset.writer as w

w.version = "0.62.7"
warnings.simplefilter("ignore")
bad = 0
for blocks in ([[3.0, 4.0], [1.5, np.nan, 11.6]],     # append branch
               [[1.5, 11.6]],                          # first write
               ):
    path = pathlib.Path(tempfile.mkdtemp()) / "f20b.rtdc"
    for b in blocks:
        with w.RTDCWriter(path, mode="append") as hw:
            hw.store_feature("fl1_max", np.array(b, dtype=float))
    with dclab.new_dataset(path) as ds:
        data = ds["fl1_max"][:]
        rep = (ds["fl1_max"].min(), ds["fl1_max"].max(), ds["fl1_max"].mean())
        true = (np.nanmin(data), np.nanmax(data), np.nanmean(data))
    ok = np.allclose(rep, true)
    print(blocks, "stored", data, data.dtype, "reported", rep, "true", true,
          "OK" if ok else "WRONG")
    bad += not ok
if bad:
    print("FAIL")
    sys.exit(1)
print("PASS")
