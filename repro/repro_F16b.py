"""F16b: norm() in dclab/downsampling.pyx divides by max - min without a zero
guard: a constant axis gives NaN, the cast to uint32 is undefined and the grid
index is out of bounds (IndexError).  Compiled source; recorded only."""
import numpy as np
from dclab import downsampling
a = np.ones(100)
b = np.linspace(0, 1, 100)
try:
    asd, bsd, idx = downsampling.downsample_grid(a, b, samples=50,
                                                 ret_idx=True)
    print("constant x, request 50 ->", asd.size)
except IndexError as e:
    print("constant x, request 50 -> IndexError:", e)
    raise AssertionError("F16b reproduced")
