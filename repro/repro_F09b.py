"""F09b (C09, R9.4): dclab.cli.join orders its inputs by the *string*
"<date>_<time>_<run index>".  The time format is 'HH:MM:SS[.S]'; because
'.' sorts before '_', a start time with fractional seconds ("12:00:00.50")
sorts before the earlier time without them ("12:00:00").  The later file is
then taken as the first one: its metadata are used, the time offset of the
earlier file becomes negative (-0.5 s) and the frame offset
`np.uint64(round(ti * fr))` overflows.

exit 0: inputs are joined in chronological order, time is continuous
exit 1: defect present
"""
import pathlib
import shutil
import sys
import tempfile
import warnings

import numpy as np

import dclab.rtdc_dataset.writer as w
from dclab import cli, new_dataset

sys.path.insert(0, str(pathlib.Path(__file__).parent))
from repro_F09 import make  # noqa: E402

w.version = "0.62.7"


def main():
    td = pathlib.Path(tempfile.mkdtemp(prefix="f09b_"))
    try:
        feats = ["deform", "time", "frame", "area_um"]
        make(td / "a.rtdc", feats, time="12:00:00")       # earlier
        make(td / "b.rtdc", feats, time="12:00:00.50")    # 0.5 s later
        with new_dataset(td / "a.rtdc") as da:
            a_def = da["deform"][:]
        try:
            with warnings.catch_warnings():
                warnings.simplefilter("ignore")
                out = cli.join(paths_in=[td / "b.rtdc", td / "a.rtdc"],
                               path_out=td / "out.rtdc", ret_path=True)
        except OverflowError as e:
            print("FAIL: join raised OverflowError:", e)
            return 1
        with new_dataset(out) as ds:
            t = ds["time"][:]
            fr = ds["frame"][:]
            ok = (np.all(ds["deform"][:7] == a_def)
                  and np.allclose(t[7:] - t[:7], 0.5)
                  and np.all(fr[7:] - fr[:7] == 1000))
            print("time:", t)
            print("PASS" if ok else "FAIL: not in chronological order / "
                  "offsets wrong")
            return 0 if ok else 1
    finally:
        shutil.rmtree(td, ignore_errors=True)


if __name__ == "__main__":
    sys.exit(main())
