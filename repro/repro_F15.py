"""F15: PolygonFilter.save writes 16 significant digits; float64 needs 17.
A point strictly outside the polygon is inside after save + load."""
import pathlib, tempfile
import numpy as np
from dclab.polygon_filter import PolygonFilter

vx = 0.1 + 0.2          # 0.30000000000000004
pts = [[vx, 0.0], [1.0, 0.0], [1.0, 1.0], [vx, 1.0]]
pf = PolygonFilter(axes=("area_um", "deform"), points=pts)
x = np.array([0.3]); y = np.array([0.5])
before = pf.filter(x, y)[0]
d = pathlib.Path(tempfile.mkdtemp())
pf.save(d / "t.poly")
PolygonFilter.clear_all_filters()
pf2 = PolygonFilter.import_all(d / "t.poly")[0]
after = pf2.filter(x, y)[0]
same_pts = np.array_equal(pf2.points, np.array(pts))
print("before:", before, "after:", after, "points identical:", same_pts)
assert before == after and same_pts, "F15 reproduced: classification changed by save/load"
print("OK")
