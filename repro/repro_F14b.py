import sys, warnings, pathlib, tempfile
warnings.simplefilter("ignore")
import numpy as np, h5py, dclab
import dclab.rtdc_dataset.writer as w; w.version = "0.62.7"
from dclab import RTDCWriter
d = pathlib.Path(tempfile.mkdtemp())
def mk(path, feats, rid, basin=None, bmap=None):
    with RTDCWriter(path) as hw:
        meta = {"setup": {"channel width": 20., "chip region": "channel", "flow rate": 0.04, "medium": "CellCarrier"}, "imaging": {"pixel size": 0.34}}
        if rid is not None:
            meta["experiment"] = {"run identifier": rid}
        hw.store_metadata(meta)
        for k, v in feats.items():
            hw.store_feature(k, v)
        if basin is not None:
            hw.store_basin(basin_name="b", basin_type="file", basin_format="hdf5", basin_locs=[basin], basin_feats=["area_um"], basin_map=bmap, verify=False)
res = {}
for mapped in (False, True):
    origin = d / f"origin{mapped}.rtdc"; ref = d / f"ref{mapped}.rtdc"
    mk(origin, {"deform": np.linspace(.1, .2, 10), "area_um": np.linspace(100, 109, 10)}, rid=None)
    mk(ref, {"deform": np.linspace(.1, .2, 10)[:4] if mapped else np.linspace(.1, .2, 10)}, rid="abc-measurement",
       basin=origin, bmap=np.arange(4, dtype=np.uint64) if mapped else None)
    try:
        with dclab.new_dataset(ref) as ds:
            res[mapped] = ("area_um" in ds.features_basin)
    except BaseException as e:
        res[mapped] = f"EXC {type(e).__name__}: {e}"
print("unmapped basin without identifier offered:", res[False])
print("mapped basin without identifier:", res[True])
ok = res[False] is False and res[True] is False
print("PASS" if ok else "FAIL"); sys.exit(0 if ok else 1)
