"""F01b (C01/R1.6): RTDCWriter.rectify_metadata takes "experiment:event count"
from len() of the alphabetically first entry of the events group; if that is
the "trace" group, the number of trace names is stored instead of the number
of events."""
import pathlib
import sys
import tempfile

import numpy as np

import dclab
import dclab.rtdc_dataset.writer as w

w.version = "0.62.7"
path = pathlib.Path(tempfile.mkdtemp()) / "f01b.rtdc"
with w.RTDCWriter(path) as hw:
    hw.store_feature("trace", {"fl1_raw": np.zeros((5, 100)),
                               "fl1_median": np.zeros((5, 100))})
    hw.store_feature("volume", np.arange(5.))
with dclab.new_dataset(path) as ds:
    count = ds.config["experiment"]["event count"]
    print("event count:", count, "len(ds):", len(ds),
          "stored events:", len(ds["volume"]))
    if count != 5 or len(ds) != 5:
        print("FAIL: reported event count differs from stored events")
        sys.exit(1)
print("PASS")
