"""file_monitoring_lru_cache passed `path` and `path_stats` by keyword in
front of *args: a positional extra argument of the decorated function
(hashfile(path, 65536)) collided with `path` -> TypeError, while the
undecorated function accepts the call."""
import pathlib, sys, tempfile
import dclab.util as u
p = pathlib.Path(tempfile.mkdtemp()) / "a.bin"
p.write_bytes(b"x" * 100)
want = u.hashfile(p, blocksize=10)
try:
    got = u.hashfile(p, 10)
except TypeError as e:
    print("DEFECT: hashfile(path, 10) raises:", e)
    sys.exit(1)
if got != want:
    print("DEFECT: positional and keyword blocksize differ")
    sys.exit(1)
print("OK")
