"""F07: rtdc_copy of a file with two basin definitions fails (each definition
is copied once per definition)."""
import pathlib, sys, tempfile
import h5py, numpy as np
import dclab
import dclab.rtdc_dataset.writer as w
w.version = "0.62.7"
from dclab.rtdc_dataset import RTDCWriter
from dclab.rtdc_dataset.copier import rtdc_copy

td = pathlib.Path(tempfile.mkdtemp(prefix="f07_"))
src = td / "src.rtdc"
with RTDCWriter(src) as hw:
    hw.store_metadata({"experiment": {"sample": "s", "run index": 1},
                       "imaging": {"pixel size": 0.34}})
    hw.store_feature("deform", np.linspace(0.01, 0.02, 10))
    hw.store_basin(basin_name="a", basin_type="remote", basin_format="http",
                   basin_locs=["http://example.com/a.rtdc"], verify=False)
    hw.store_basin(basin_name="b", basin_type="remote", basin_format="http",
                   basin_locs=["http://example.com/b.rtdc"], verify=False)
with h5py.File(src) as h5:
    nsrc = sorted(h5["basins"].keys())
assert len(nsrc) == 2
dst = td / "dst.rtdc"
try:
    with h5py.File(src) as hs, h5py.File(dst, "w") as hd:
        rtdc_copy(hs, hd)
except BaseException as e:
    print("FAIL: rtdc_copy raised", type(e).__name__, e)
    sys.exit(1)
with h5py.File(dst) as h5:
    ndst = sorted(h5["basins"].keys())
assert ndst == nsrc, (ndst, nsrc)
print("PASS: both basin definitions copied once")
