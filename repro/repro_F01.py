"""F01 (C01/R1.3): RTDCWriter.write_text appends into an existing fixed-width
dataset without checking the item size -> long lines are silently truncated."""
import pathlib
import sys
import tempfile

import h5py
import numpy as np

import dclab
import dclab.rtdc_dataset.writer as w

w.version = "0.62.7"

path = pathlib.Path(tempfile.mkdtemp()) / "f01.rtdc"
long_line = "y" * 150
uni_line = "ä" * 80  # 160 bytes in UTF-8
with w.RTDCWriter(path, mode="append") as hw:
    hw.store_feature("deform", np.linspace(0.1, 0.2, 5))
    hw.store_metadata({"experiment": {"sample": "s", "run index": 1},
                       "imaging": {"pixel size": 0.34},
                       "setup": {"channel width": 20, "chip region": "channel",
                                 "flow rate": 0.04}})
    hw.store_log("x", ["short"])
with w.RTDCWriter(path, mode="append") as hw:
    hw.store_log("x", [long_line])
    hw.store_log("x", [uni_line, "tail"])

with dclab.new_dataset(path) as ds:
    got = ds.logs["x"]
want = ["short", long_line, uni_line, "tail"]
with h5py.File(path) as h5:
    print("stored dtype:", h5["logs/x"].dtype)
print("lengths written:", [len(x) for x in want])
print("lengths read   :", [len(x) for x in got])
if got != want:
    print("FAIL: log lines differ after re-opening (truncated)")
    sys.exit(1)
print("PASS")
