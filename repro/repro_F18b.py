"""F18b (C18, R18.6): get_volume(fix_orientation=True) re-orients the contour
with counter_clockwise(contour_r, contour_z) but then hands the *original*
`contour_x` (not the re-oriented `contour_z`) to vol_revolve.  For a clockwise
contour the reversed radial coordinates are paired with un-reversed axial
coordinates and the volume is wrong (it must equal the volume of the same
contour given counter-clockwise).

exit 0: consistent, exit 1: defect reproduced
"""
import sys
import numpy as np
from dclab.features.volume import get_volume

t = np.linspace(0, 2 * np.pi, 60, endpoint=False) + 0.7
x = 10 * np.cos(t) + 3 * np.cos(2 * t + 0.5) + 50
y = 6 * np.sin(t) + 1.5 * np.sin(3 * t) + 30
cont = np.stack([x, y], axis=1)
pix = 0.34
px, py = np.mean(x) * pix, np.mean(y) * pix

v_ccw = get_volume(cont[::-1], px, py, pix)                    # reference
v_cw_raw = get_volume(cont, px, py, pix)                       # -reference
v_cw_fixed = get_volume(cont, px, py, pix, fix_orientation=True)
v_ccw_fixed = get_volume(cont[::-1], px, py, pix, fix_orientation=True)
print("counter-clockwise contour            :", v_ccw)
print("clockwise contour                    :", v_cw_raw)
print("clockwise contour, fix_orientation   :", v_cw_fixed)
print("counter-clockwise, fix_orientation   :", v_ccw_fixed)
assert np.isclose(v_ccw, -v_cw_raw)
assert np.isclose(v_ccw_fixed, v_ccw)
if not np.isclose(v_cw_fixed, v_ccw, rtol=1e-9):
    print("DEFECT: fix_orientation=True does not yield the volume of the "
          "counter-clockwise contour")
    sys.exit(1)
print("ok")
