"""Per-property claim texts for MANIFEST.json (see tools/gen_manifest.py)."""

CLAIMS = {
    "C10": {
        "technique": "CFG path rules (must-pass-through / nothing-after) + "
                     "role (taint) propagation of input/output/temp paths; "
                     "who-may-write over dclab/cli",
        "text": "All paths (normal and exceptional) of the six task functions "
                "and their dclab/cli helpers are enumerated on a statement "
                "CFG: every write-capable sink receives only the temporary "
                "path, every writer is context-managed and closed before the "
                "rename, nothing is written after the rename, the rename is "
                "not in finally/except, inputs/outputs never reach a "
                "write/destroy sink; a helper that renames on every path "
                "counts as the rename, a rename loop must visit the whole "
                "collection of temporaries, no handler or suppress() "
                "swallows a write error. setup_task_paths is loaded from its "
                "syntax tree and evaluated with a model of pathlib.Path on "
                "a model file system in which links, '..' detours and the "
                "suffix completion make several spellings denote one file "
                "(~190 cases): aliasing outputs refused before anything is "
                "removed, no input deleted, only the task's own stale files "
                "removed, temporaries are '~' siblings. This is the "
                "structural whole of the write-temp-then-rename protocol, "
                "for every crash point at once.",
        "note": "Assumes POSIX rename atomicity, HDF5 flush on close; "
                "parameter-role table (which parameter is input/output) "
                "confirmed by reading; callee bodies outside dclab/cli "
                "(rtdc_copy, export.hdf5, RTDCWriter) are trusted to write "
                "only to the handle/path they are given.",
    },
}

NOT_APPLICABLE = {}

CLAIMS["C06"] = {
    "technique": "effect analysis (read-set ⊆ hash-set) by path-sensitive "
                 "partial evaluation of every registered recipe's compute "
                 "function under a presence lattice; registry folded from "
                 "source; finite-model evaluation of the parsed "
                 "AncillaryFeature / obj2bytes / RTDCBase access path "
                 "(nothing of dclab executed)",
    "text": "For each of the 33 registered ancillary-feature recipes "
            "(registry folded from the registration code, cross-validated "
            "against the imported package in the thorough tier) the compute "
            "function is partially evaluated on an abstract dataset; every "
            "feature / configuration read that can influence the result or "
            "decide between result and exception must be a hash ingredient "
            "(req_features, req_config or flow into a non-boolean req_func "
            "result) unless its presence is determined while the recipe is "
            "selected. The mechanism that uses the hash is evaluated from "
            "its syntax tree on model datasets: states differing in one "
            "ingredient get different hashes, availability equals its "
            "definition on 288 x 5 cases, and after every model history of "
            "reads and changes each access equals a fresh computation on "
            "the current state while `in` agrees with access (histories "
            "include a setting changed by another thread while a recipe "
            "computes, and a plugin recipe removed and registered again "
            "under the same name; caches of a dataset are per instance, no "
            "class-level mutable object mutated through self). Plus scenario "
            "precedence, plugin/temporary features, write-once LUT "
            "registry, availability recomputed on every call.",
    "note": "The histories are decided on the model recipes, the read sets "
            "on the real ones; numerical equality of real recipes with a "
            "fresh dataset and formulas are not decided. len(mm) and "
            "non-feature attributes are not tracked. md5 collision freedom "
            "assumed.",
}

CLAIMS["C03"] = {
    "technique": "finite-model evaluation of the parsed Filter class (history "
                 "evaluation on a six-event model dataset, nothing of dclab "
                 "executed); def-use / set rules for polygon hash coverage, "
                 "inversion, reset completeness, filter universe",
    "text": "Filter is loaded from its syntax tree into the analyser's "
            "interpreter and driven through curated (quick) or all pair / "
            "triple (thorough) histories of ~40 operations (ranges incl. "
            "swapped, equal, removed, NaN/inf data; manual exclusions; "
            "polygon add/remove/change/invert; invalid-event removal; event "
            "limit; features appearing); after every step each per-class "
            "array and the combined array are compared with the "
            "specification evaluated from scratch on the current settings. "
            "Structural rules cover what the model does not contain: the "
            "polygon cache key covers every attribute the evaluation reads, "
            "no return by-passes the inversion, reset clears every memo, the "
            "filter universe is features_scalar, no class-level mutable "
            "object of Filter is mutated through an instance (memo state is "
            "per dataset).",
    "note": "Decides the histories of the family on the model dataset, not "
            "arbitrary data; numpy semantics are modelled (trusted base); "
            "reproducibility of the event limit rests on C16's seeding rule.",
}

CLAIMS["C19"] = {
    "technique": "finite-model evaluation of the parsed HTTPFile / S3File "
                 "classes on a family of small resources behind a model "
                 "range server (nothing of dclab executed, no network); "
                 "structural rules for hand-over, per-instance state, "
                 "resource identity, lazy listings published complete",
    "text": "Network code cannot run offline. HTTPFile is loaded from its "
            "syntax tree and evaluated for every byte range and every "
            "seek/read/tell combination on resources of 1-8 bytes (thorough: "
            "90 models) with chunk sizes 3-4 and 1-2 kept chunks, behind a "
            "model session that is strict about Range, implements If-Range / "
            "If-Match and labels the resource with a strong, weak or no "
            "ETag: returned bytes, position, cache bound, chunk-0 pin, "
            "content of each cached chunk and the request log are compared "
            "with the specification; S3File.download_range likewise. "
            "Structural: the file object is handed to h5py by the non-local "
            "formats, state is per instance, the resource identity is bound "
            "in __init__ only, and the memoised listings of the inherited "
            "HDF5 reader are published only when complete. A second file "
            "object opened later on the same URL after the resource was "
            "replaced must read the new resource (nothing learnt about a URL "
            "survives outside the file object); the three port computations "
            "of http_utils / fmt_s3 are evaluated on the scheme x port "
            "table.",
    "note": "Decides the family, not all sizes; equality of a dataset opened "
            "over HTTP with the local one is decided only as far as the byte "
            "layer and the listing memos go (h5py is not modelled).",
}

CLAIMS["C17"] = {
    "technique": "finite-model evaluation of the parsed Cache class (model "
                 "functions, model arrays, concatenating model of md5); "
                 "escape analysis of memoised results into the dataset "
                 "interface; paired-update rules; package-wide identity-memo "
                 "scan",
    "text": "Cache is loaded from its syntax tree and evaluated: 40 argument "
            "lists constructed to collide (types, delimiters, keyword names, "
            "None positions, option subsets of a named signature, dtype, "
            "byte order, shape, one byte in a large array) must get distinct "
            "entries; keyword order, equal copies and layout must not "
            "matter; a hit returns the stored object, a miss computes with "
            "the given arguments, an in-place edit of an argument computes "
            "again; bound, eviction order and clear for MAX_SIZE 1 and 3. "
            "The file-monitoring cache is evaluated on a model file system "
            "(links, relative names across a change of directory, rewrites "
            "with equal size / time stamp / within one second): every call "
            "returns what a fresh call returns. LazyContourList is "
            "evaluated over all short access sequences incl. failing "
            "computations: requested contour returned, stores bounded and "
            "position-aligned. Structural: shared cached objects "
            "reach the dataset interface only copied or read-only, memoised "
            "functions read no module state, no function in the package "
            "keys a memo on the identity of an argument.",
    "note": "Value equality with an uncached computation is decided for the "
            "model functions only; determinism of scipy/numpy callees and "
            "md5 collision freedom assumed.",
}

CLAIMS["C15"] = {
    "technique": "exhaustive order-type evaluation of the crossing rule read "
                 "from the .pyx source; rational-function comparison of the "
                 "edge abscissa; role tracking of x/y columns through the "
                 "wrapper chain; reader/writer key-table agreement",
    "text": "The compiled extension cannot be rebuilt in this sandbox, so an "
            "edit of geometry.pyx/_pnpoly.pyx is invisible to every runtime "
            "test; reading the source is the only sensitive check. The "
            "straddle test is decided on all 13 weak orderings of (y_i, y_j, "
            "y), the abscissa as an exact rational function, the loop "
            "visits each cyclic edge once; x/y roles are followed through "
            "all wrappers, inversion iff `inverted`; every key `save` writes "
            "is dispatched by `_load` to the same attribute and floats keep "
            ">= 17 significant digits; save_all keeps one live file handle "
            "(no second append handle while a buffered one is open).",
    "note": "Floating-point evaluation of the abscissa for points within "
            "rounding distance of an edge, and uniqueness of identifiers "
            "across files, are not decided. The shipped binaries are assumed "
            "to be built from the .pyx sources in the tree.",
}
CLAIMS["C16"] = {
    "technique": "CFG dominance of every random draw by a literal re-seeding; "
                 "linear bound prover for choice(size, replace=False) against "
                 "its pool; mask/data agreement def-use rules on the .pyx "
                 "source",
    "text": "Reproducibility and no-duplication hold for every input iff "
            "every np.random draw is dominated by a reset to a literal seed "
            "with no intervening draw and every choice has replace=False; "
            "the sample-size request must be provably bounded by its pool "
            "from the enclosing guards; the returned mask must be the one "
            "that indexed the returned data; zero data range must be "
            "guarded. Two genuine defects in the .pyx (F16a, F16b) are "
            "recorded as known findings because the binary cannot be "
            "rebuilt here.",
    "note": "Does not decide that the number returned equals the request "
            "for arbitrary distributions; the grid thinning itself is not "
            "modelled. Binary assumed built from the .pyx in the tree.",
}
CLAIMS["C05"] = {
    "technique": "interprocedural freshness (ownership) analysis of every "
                 "in-place operation; monomial normal forms of the scaling "
                 "laws; sibling comparison of the two computation routes; "
                 "call-shape rule for the interpolation",
    "text": "Decided structurally: no caller array or registered table is "
            "mutated (every in-place op acts on a fresh allocation), the "
            "scale laws are the documented monomials (area ~ w^2, volume ~ "
            "w^3, E ~ Q*eta/w^3), the per-event route back-scales with the "
            "inverse of its forward scaling and agrees entry by entry with "
            "the global route, pixelation correction precedes scaling, "
            "griddata is linear without fill_value/rescale and "
            "extrapolation is off by default.",
    "note": "Numerical agreement with an interpolation oracle, NaN exactly "
            "outside the LUT support (scipy), viscosity models and "
            "isoelastics are not decided.",
}

CLAIMS["C01"] = {
    "technique": "CFG ordering rules for the append protocol; affine tiling "
                 "recogniser for the chunk loop; guard-dominance rule for "
                 "the fixed string width; table agreement writer/reader/"
                 "copier; paired-counter rule",
    "text": "Structural necessary conditions of write/read-back exactness "
            "that hold for every split of the events over write calls: the "
            "append offset is the stored length read before the resize and "
            "every store starts there; chunk tiles plus remainder cover "
            "[0,len) exactly once (decided symbolically); no line is stored "
            "into a narrower fixed-width dataset; index = arange(n0+1, "
            "n0+n+1) independent of caller data; group names, contour "
            "naming, mask encoding, uint tables and text codec agree between "
            "writer, readers and copier; __exit__ closes on every path and "
            "re-derives the metadata; mode (append/replace/reset) table.",
    "note": "Value equality for every dtype/NaN/inf/unicode value (h5py/"
            "numpy conversions), behaviour across re-opened writers and "
            "chunk-size configurations are not decided.",
}
CLAIMS["C20"] = {
    "technique": "provenance (def-use) classification of every stored "
                 "summary value; rational-function identity for a weighted "
                 "mean; table agreement between four implementations; "
                 "whole-tree who-may-store scan",
    "text": "Every value stored under min/max/mean must be a NaN-ignoring "
            "reduction of the whole dataset after the store, or a combination "
            "whose weights are non-NaN counts; the name->reducer tables of "
            "writer, copier, HDF5 reader and hierarchy child agree; the "
            "reader prefers stored summaries and otherwise reduces its own "
            "data; re-indexing wrappers never forward summaries; only "
            "write_ndarray and rtdc_copy store summaries.",
    "note": "Floating-point summation order and summaries already stored "
            "in third-party input files (copied as they are) are not "
            "decided.",
}
CLAIMS["C02"] = {
    "technique": "symbolic evaluation of the export routines' syntax trees "
                 "over model datasets (events as uninterpreted tokens, numpy "
                 "indexing laws) for all mask classes and feature kinds; "
                 "tiling check of the chunk generator",
    "text": "The parsed export code is interpreted on abstract events "
            "(nothing of dclab is executed): for every feature kind of the "
            "writer's dispatch table, both source formats, filter on/off and "
            "five mask classes (empty, full, single, straddling, longer than "
            "the feature) the writer model must receive exactly the selected "
            "events in order under the right name; the chunk generator tiles "
            "the index list on both routes; text/FCS/AVI rows are the "
            "selection iff `filtered`; metadata/logs/tables are carried over "
            "under their flags.",
    "note": "Events are uninterpreted: value conversion (dtype, mask "
            "encoding), TSV precision and h5py behaviour are not decided. "
            "The model of numpy indexing is part of the trusted base.",
}
CLAIMS["C09"] = {
    "technique": "mutation-while-iterating rule (syntactic + CFG) over "
                 "dclab/cli; symbolic evaluation of split()/join() on model "
                 "inputs for enumerated (N, S) and feature-set cases; "
                 "order-type evaluation of the sort key",
    "text": "split: the parsed window arithmetic is evaluated for 15 (N, S, "
            "empty-boundary) cases: parts partition the events in order, "
            "each at most S, ceil(N/S) parts. join: offsets for time, frame "
            "and index_online, pass-through features, logs/tables/config of "
            "every source under distinct prefixes, feature intersection for "
            "one/adjacent/several missing features, chronological sort key "
            "incl. fractional seconds and ties; the time offset is added in "
            "double precision also to an input whose time is stored in "
            "single precision (model arrays follow NumPy-2 promotion: numpy "
            "scalars strong, python floats weak). No container is mutated "
            "while a live view of it is iterated.",
    "note": "Numeric continuity of time/frame for arbitrary rates and "
            "dates, and equality of joined split parts with the original "
            "(needs execution) are not decided.",
}
CLAIMS["C12"] = {
    "technique": "def-use taint analysis on the CFG (source: feature data of "
                 "a dataset; sanitiser: subscript by filter.all; sinks: "
                 "estimators, downsampler, statistics, text/FCS/AVI writers, "
                 "returns) with guard recognition by boolean enumeration",
    "text": "Entry points are enumerated from the code (every function of "
            "core/statistics/export that reads feature data from a dataset "
            "and hands it to a sink). No path may carry unfiltered feature "
            "data into a sink unless a branch guarantees that filtering is "
            "not wanted. Plus: axis pairing of scaling and positions, exp "
            "back-transform exactly for log-scaled axes, nan/inf wrapper "
            "semantics, quantile-level plumbing.",
    "note": "That each estimator equals its reference (histogram spline, "
            "Gaussian, product kernel), bin-width rules and quantile "
            "semantics are numerical and not decided.",
}
CLAIMS["C14"] = {
    "technique": "guard dominance on the CFG of basins_retrieve at every "
                 "instantiation site; who-may-write scan of the isolation "
                 "switch; structural termination argument (ignore set grows "
                 "along every resolution path); table folding of Basin "
                 "subclasses",
    "text": "Isolation: every basin-class instantiation is dominated by the "
            "local-basins switch or by a test that the class type equals the "
            "declared type; only RTDCBase/RTDC_HDF5 write the switch and "
            "only for format 'hdf5'; network formats never derive 'hdf5'. "
            "Cycle cut: ignore test precedes instantiation, the set handed "
            "down is own keys plus inherited, installed before the child "
            "dataset evaluates its basins, only ever extended. Identifier "
            "law (equality / prefix), verification before data, degradation "
            "handler covers every basin access.",
    "note": "Termination as a wall-clock fact, availability of remote "
            "basins, and the DCOR server attaching keys are assumptions.",
}
CLAIMS["C07"] = {
    "technique": "branch-order rule for the lookup precedence; every-route "
                 "rule (all origin accesses go through the map); case "
                 "evaluation of the map composition on export; loop-"
                 "invariance rule for creating calls; sibling rule over all "
                 "feature-wrapper classes (len vs shape)",
    "text": "Innate > temporary > cached ancillary > internal > file > any "
            "basin > computed; every access route of the mapped proxy "
            "indexes the origin through the basin map; export composes maps "
            "for {unfiltered, same, mapped, hierarchy child} x {filtered}; "
            "each basin definition is copied exactly once; every wrapper "
            "that re-indexes the first axis reports its own length in "
            "shape/size (17 classes).",
    "note": "Data equality for arbitrary maps and chains of exports is not "
            "decided.",
}

CLAIMS["C11"] = {
    "technique": "funnel (who-may-write) rule over the whole package; "
                 "abstract evaluation of every converter's dispatch over "
                 "type tags incl. the numpy scalar hierarchy and the HDF5 "
                 "attribute image; interpretation of the table-building "
                 "module code; sibling agreement of the three pattern "
                 "resolvers",
    "text": "Every key-level mutation route of ConfigurationDict (incl. "
            "inherited UserDict mutators) reaches the validating "
            "__setitem__ and nothing outside config.py writes the raw dict; "
            "each of the 108 table entries has a converter from the "
            "declared set and the derived lookup tables agree with it; every "
            "converter accepts each of its declared output types and what "
            "the HDF5 attribute layer hands back (idempotence, round trip "
            "by type), rejection scenarios warn and never store; writer and "
            "reader pipe values through the converters.",
    "note": "Value equality through the HDF5 attribute layer (h5py) and the "
            "text serialisation (Configuration.save / load_from_file) are "
            "not decided; section-level assignment of plain dicts is out "
            "of scope.",
}
CLAIMS["C13"] = {
    "technique": "interpretation of the parsed check_* methods, collector, "
                 "CLI exit-code chain and rectify_metadata on a model "
                 "dataset and seeded model corruptions; CFG rule that every "
                 "check returns a list on every path",
    "text": "Each of the ten inconsistency classes named by the property, "
            "seeded into a model dataset, is reported at level 'violation' "
            "by a method that the (interpreted) collector really runs; each "
            "of the 27 mandatory keys is a violation when removed; the "
            "collector runs every check_* exactly once with no early exit; "
            "the CLI exit-code table is total; for all 63 subsets of "
            "{deform, volume, image, mask, trace, fl1_max} the attributes "
            "rectify_metadata writes are violation-free for the checks that "
            "compare data with metadata.",
    "note": "The closure 'whatever writer/export/CLI produce is violation-"
            "free' over the writer's whole input space and equality of cue "
            "lists for a file and its copy are not decided; alert-level "
            "cues are out of scope.",
}

CLAIMS["C04"] = {
    "technique": "typestate / ordering rules on the CFG of the refresh; "
                 "reset-set ⊇ memo-set; symbolic evaluation of the mapper, "
                 "hierarchy-filter and Child* accessor syntax trees on all "
                 "small hierarchies (every parent filter of 3–4 events, "
                 "depth 1–3)",
    "text": "Refresh order (retrieve manual indices ≺ parent refresh ≺ "
            "invalidation ≺ re-creation of the child filter ≺ own filter) "
            "holds on every path; every memoised attribute that depends on "
            "the parent's filter is reset; each accessor of the four Child* "
            "classes and the four index mappers, interpreted on every "
            "filter of a small model family, equal their specification; the "
            "parent-change witness covers all ancestors; retrieve/apply of "
            "hidden manual exclusions satisfy their single-step algebra.",
    "note": "The index-set algebra over arbitrary interleavings of edits "
            "and refreshes (beyond single steps on small models) and value "
            "equality of features are not decided; an exclusion taken back "
            "while it is the only one is remembered by design.",
}
CLAIMS["C08"] = {
    "technique": "symbolic evaluation of the copier's syntax trees on a "
                 "model of h5py objects for every storage layout class; "
                 "taint from source parameters to write sinks; sibling "
                 "agreement of copy routes; table sharing between copier "
                 "and reader",
    "text": "h5ds_copy / rtdc_copy / condense_dataset are interpreted on "
            "model files (contiguous, chunked, chunk larger than data, "
            "weakly/properly compressed, variable-length strings, n-d, "
            "groups, empty datasets): every element is written once under "
            "the right name, attributes survive on every route (root, "
            "features, logs, tables), the sealed model source is never "
            "written, a second pass is the identity, the condense feature-"
            "set algebra holds for all 16 option combinations, the "
            "defective-feature table is the reader's.",
    "note": "Value identity through real HDF5 filters and tdms decoding are "
            "not decided; the h5py model is cross-validated against the "
            "installed h5py on 16 facts (thorough tier).",
}
CLAIMS["C18"] = {
    "technique": "sibling idiom rule; dominance of casts over arithmetic; "
                 "polynomial / rational-function identities for cone "
                 "volume, moments and crosstalk inversion; orientation-"
                 "consistency def-use rule",
    "text": "Narrow claim: presence tests of the optional offset are "
            "`is None` tests in both brightness siblings, signed cast before "
            "background subtraction, statistics over the masked pixels, "
            "offset on location statistics only; 64-bit cast dominates every "
            "moment product; cone-volume and moment formulas are exact "
            "polynomial identities with the documented scale powers; "
            "correct_crosstalk inverts the modelled spill-over exactly over "
            "the rationals; r and z handed to vol_revolve derive from the "
            "same (re-oriented) contour.",
    "note": "Contour<->mask round trip, translation/rotation invariance, "
            "convergence of the volume and marching squares "
            "(_find_contours_cy.pyx) are numerical and not decided.",
}
