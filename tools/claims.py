"""Per-property claim texts for MANIFEST.json (see tools/gen_manifest.py)."""

CLAIMS = {
    "C10": {
        "technique": "CFG path rules (must-pass-through / nothing-after) + "
                     "role (taint) propagation of input/output/temp paths; "
                     "who-may-write over dclab/cli",
        "text": "All paths (normal and exceptional) of the six task functions "
                "and their dclab/cli helpers are enumerated on a statement "
                "CFG: every write-capable sink receives only the temporary "
                "path, every writer is context-managed and closed before the "
                "rename, nothing is written after the rename, the rename is "
                "not in finally/except, inputs/outputs never reach a "
                "write/destroy sink, stale-file removal cannot hit an input. "
                "This is the structural whole of the write-temp-then-rename "
                "protocol, for every crash point at once.",
        "note": "Assumes POSIX rename atomicity, HDF5 flush on close; "
                "parameter-role table (which parameter is input/output) "
                "confirmed by reading; callee bodies outside dclab/cli "
                "(rtdc_copy, export.hdf5, RTDCWriter) are trusted to write "
                "only to the handle/path they are given.",
    },
}

NOT_APPLICABLE = {}
