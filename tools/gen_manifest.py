#!/venv/bin/python
"""Generate /verif/MANIFEST.json from the table below (run after adding a rules
module).  A property is claimed when sa/rules/<ID>.py exists and has an entry
in CLAIMS; everything else is listed under not_applicable with its reason."""
import json
import pathlib
import sys

VERIF = pathlib.Path(__file__).resolve().parent.parent
sys.path.insert(0, str(VERIF))
from tools.claims import CLAIMS, NOT_APPLICABLE  # noqa: E402

PY = "/venv/bin/python"

props = [json.loads(l) for l in (VERIF / "properties.jsonl").read_text(
).splitlines() if l.strip()]
ids = [p["id"] for p in props]

checks = []
na = []
for pid in ids:
    if pid in CLAIMS and (VERIF / "sa" / "rules" / f"{pid}.py").exists():
        c = CLAIMS[pid]
        checks.append({
            "property_id": pid,
            "quick_cmd": f"{PY} sa/check.py {pid} --tier quick",
            "thorough_cmd": f"{PY} sa/check.py {pid} --tier thorough",
            "evidence_file": f"evidence/{pid}.json",
            "replay_cmd_template": f"{PY} sa/check.py {pid} --replay {{path}}",
            "engine": "sa",
            "level_claimed": {"category": "other", "text": c["text"],
                              "design_ref": f"DESIGN.md §2 {pid}"},
            "level_note": c["note"],
            "technique": c["technique"],
        })
    else:
        na.append({"property_id": pid,
                   "reason": NOT_APPLICABLE.get(
                       pid, "not claimed: no static rule implemented yet")})

manifest = {
    "version": 1,
    "setup_cmd": "true",
    "hooks": {
        "guard": "DCLAB_VERIF",
        "enable": "none: the static checks parse /repo's working tree; no "
                  "instrumentation of dclab exists, the guard variable is "
                  "reserved and unused",
        "baseline_off_cmd": "cd /repo && /venv/bin/python -m pytest -ra -q "
                            "-p no:cacheprovider --timeout=900 "
                            "--continue-on-collection-errors",
        "source_commits": [],
        "add_only": True,
    },
    "engines": [{
        "name": "sa",
        "path": "sa/",
        "serves_properties": [c["property_id"] for c in checks],
        "kind_free_text": "repository-specific static analysis on CPython "
                          "ast (plus a de-cythonising front end for .pyx): "
                          "statement CFG with exceptional edges, role/taint "
                          "propagation, table folding, read-set vs hash-set "
                          "effect analysis, order-type and monomial abstract "
                          "evaluation; stdlib only",
    }],
    "checks": checks,
    "not_applicable": na,
    "notes": "Technique family: static analysis only. Every check decides "
             "structural necessary conditions of its property from /repo's "
             "current source (exit 0/1/2; exit 2 = ANALYSIS-ERROR, analyser "
             "lost an anchor). Value-level clauses that are not decided are "
             "listed in each level_note and in the evidence 'assumptions'. "
             "Genuine defects: known_findings.json. Thorough tier adds the "
             "in-memory mutant/twin sensitivity self-test.",
}
(VERIF / "MANIFEST.json").write_text(json.dumps(manifest, indent=1) + "\n")
print(f"claimed {len(checks)}  not_applicable {len(na)}")
