#!/venv/bin/python
"""Confirm and evaluate seeded breaking changes produced by independent
sub-agents.

usage: tools/seed_eval.py <agent out dir> <PROP> [k ...]

For each change k: in a scratch worktree of /repo HEAD
  1. demo on the clean tree must exit 0
  2. apply patch; demo must exit != 0
  3. pinned suite must show regressions=0
  4. run every claimed check (quick) against the patched worktree
     (DCLAB_VERIF_REPO=<worktree>) and record which report a violation
The change is copied to /verif/seeded/<PROP>_<k>/ (patch.diff, demo.py,
meta.json) only when 1–3 are confirmed.  The worktree is removed afterwards.
"""
import json
import os
import pathlib
import shutil
import subprocess
import sys
import time

VERIF = pathlib.Path(__file__).resolve().parent.parent


def sh(cmd, **kw):
    return subprocess.run(cmd, shell=True, capture_output=True, text=True,
                          **kw)


def run_checks(wt, props=None):
    man = json.loads((VERIF / "MANIFEST.json").read_text())
    res = {}
    env = dict(os.environ, DCLAB_VERIF_REPO=str(wt), VERIF_NO_EVIDENCE="1")
    for c in man["checks"]:
        pid = c["property_id"]
        if props and pid not in props:
            continue
        r = subprocess.run(c["quick_cmd"], shell=True, cwd=VERIF, env=env,
                           capture_output=True, text=True)
        lines = [l for l in r.stdout.splitlines()
                 if l.startswith(("R", "ANALYSIS-ERROR")) and "VIOLATION"
                 not in l]
        res[pid] = {"rc": r.returncode,
                    "reports": [l[:300] for l in lines[:6]]}
    return res


def main():
    out = pathlib.Path(sys.argv[1])
    prop = sys.argv[2]
    ks = [int(k) for k in sys.argv[3:]] or [1, 2, 3]
    wt = pathlib.Path(f"/tmp/seedeval_{prop}_{os.getpid()}")
    sh(f"{VERIF}/tools/mkworktree.sh {wt}")
    summary = []
    try:
        for k in ks:
            patch = out / f"patch{k}.diff"
            demo_src = out / f"demo{k}.py"
            # demos may hard-code the seeding agent's worktree (test
            # helpers): point them at the evaluation worktree here and at
            # /repo in the stored copy
            import re
            text = demo_src.read_text()
            demo = wt.parent / f"{wt.name}_demo{k}.py"
            rel = (r'pathlib\.Path\(__file__\)\.resolve\(\)\.parent\.parent'
                   r'\s*/\s*"wt\w*_C\d+"')
            text_e = re.sub(rel, f'pathlib.Path("{wt}")', text)
            text_s = re.sub(rel, 'pathlib.Path("/repo")', text)
            demo.write_text(re.sub(r"/tmp/seed/wt\w*_C\d+", str(wt), text_e))
            stored_demo = re.sub(r"/tmp/seed/wt\w*_C\d+", "/repo", text_s)
            meta = json.loads((out / f"meta{k}.json").read_text())
            env = f"cd {wt} && PYTHONPATH={wt}"
            sh(f"git -C {wt} checkout -- . && git -C {wt} clean -fdq -e '*.so' "
               f"-e _version.py")
            r_clean = sh(f"{env} timeout 600 /venv/bin/python {demo}")
            ap = sh(f"git -C {wt} apply {patch}")
            if ap.returncode != 0:
                summary.append((k, "patch does not apply", ap.stderr[:200]))
                continue
            r_pat = sh(f"{env} timeout 600 /venv/bin/python {demo}")
            base = sh(f"REPO={wt} {VERIF}/tools/baseline.sh -n 8")
            checks = run_checks(wt)
            sh(f"git -C {wt} checkout -- .")
            confirmed = (r_clean.returncode == 0 and r_pat.returncode != 0
                         and "regressions=0" in base.stdout)
            caught = sorted(p for p, v in checks.items() if v["rc"] == 1)
            broken = sorted(p for p, v in checks.items() if v["rc"] == 2)
            rec = {
                "property": prop,
                "breaks": meta.get("what"),
                "needs": meta.get("needs"),
                "files": meta.get("files"),
                "agent_ran": meta.get("ran"),
                "confirmed_by_me": {
                    "demo_clean_rc": r_clean.returncode,
                    "demo_patched_rc": r_pat.returncode,
                    "demo_patched_tail": (r_pat.stdout + r_pat.stderr
                                          )[-400:],
                    "baseline": base.stdout.strip().splitlines()[:1],
                    "at": time.strftime("%Y-%m-%d %H:%M:%S"),
                },
                "checks_quick_on_patched_tree": checks,
                "caught_by": caught,
                "analysis_error_in": broken,
            }
            if confirmed:
                off = int(os.environ.get("SEED_OFFSET", "0"))
                d = VERIF / "seeded" / f"{prop}_{k + off}"
                d.mkdir(parents=True, exist_ok=True)
                shutil.copy(patch, d / "patch.diff")
                (d / "demo.py").write_text(stored_demo)
                (d / "meta.json").write_text(json.dumps(rec, indent=1))
            summary.append((k, "confirmed" if confirmed else "NOT confirmed",
                            f"clean={r_clean.returncode} "
                            f"patched={r_pat.returncode} "
                            f"{base.stdout.strip().splitlines()[:1]}",
                            "caught by", caught, "exit2", broken))
    finally:
        sh(f"git -C /repo worktree remove --force {wt}")
        sh(f"rm -f {wt.parent}/{wt.name}_demo*.py")
    for s in summary:
        print(prop, *s)


if __name__ == "__main__" and not (len(sys.argv) > 1
                                   and sys.argv[1] == "--recheck"):
    main()


def recheck():
    """usage: tools/seed_eval.py --recheck  – re-run all claimed quick checks
    on every confirmed seeded change in /verif/seeded (patched scratch
    worktree) and update caught_by in its meta.json; print a summary."""
    wt = pathlib.Path(f"/tmp/seedrecheck_{os.getpid()}")
    sh(f"{VERIF}/tools/mkworktree.sh {wt}")
    rows = []
    try:
        for d in sorted((VERIF / "seeded").iterdir()):
            meta = json.loads((d / "meta.json").read_text())
            sh(f"git -C {wt} checkout -- .")
            ap = sh(f"git -C {wt} apply {d / 'patch.diff'}")
            if ap.returncode:
                rows.append((d.name, "patch does not apply on HEAD"))
                continue
            checks = run_checks(wt)
            meta["checks_quick_on_patched_tree"] = checks
            meta["caught_by"] = sorted(p for p, v in checks.items()
                                       if v["rc"] == 1)
            meta["analysis_error_in"] = sorted(p for p, v in checks.items()
                                               if v["rc"] == 2)
            meta["rechecked_at"] = time.strftime("%Y-%m-%d %H:%M:%S")
            (d / "meta.json").write_text(json.dumps(meta, indent=1))
            own = meta["property"] in meta["caught_by"]
            rows.append((d.name, "caught by", meta["caught_by"],
                         "own check" if own else "NOT by own check",
                         "exit2", meta["analysis_error_in"]))
    finally:
        sh(f"git -C /repo worktree remove --force {wt}")
    for r in rows:
        print(*r)


if __name__ == "__main__" and len(sys.argv) > 1 and sys.argv[1] == "--recheck":
    recheck()
