#!/venv/bin/python
"""Regenerate the per-property input files of the seeding / refactoring
agents under /tmp/seed: prop_<ID>.json (one property), used_<ID>.txt (ideas
of the stored seeded changes), targets_<ID>.txt (files and hunk contexts the
seeded changes – hence the newer rules – touch)."""
import json
import pathlib
import re

VERIF = pathlib.Path(__file__).resolve().parent.parent
OUT = pathlib.Path("/tmp/seed")
OUT.mkdir(exist_ok=True)
props = [json.loads(l) for l in (VERIF / "properties.jsonl").read_text()
         .splitlines() if l.strip()]
for p in props:
    pid = p["id"]
    (OUT / f"prop_{pid}.json").write_text(json.dumps(p, indent=1))
    used, targets = [], set()
    for d in sorted((VERIF / "seeded").glob(f"{pid}_*"),
                    key=lambda x: int(x.name.split("_")[1])):
        m = json.loads((d / "meta.json").read_text())
        used.append("- " + ", ".join(m["files"]) + ": " + m["breaks"][:420])
        cur = None
        for line in (d / "patch.diff").read_text().splitlines():
            if line.startswith("+++ b/"):
                cur = line[6:]
                targets.add(cur)
            mm = re.match(r"@@ .* @@ (.*)", line)
            if mm and cur:
                targets.add(f"{cur} :: near `{mm.group(1).strip()}`")
    (OUT / f"used_{pid}.txt").write_text("\n".join(used) + "\n")
    (OUT / f"targets_{pid}.txt").write_text("\n".join(sorted(targets)) + "\n")
print("written for", len(props), "properties")
