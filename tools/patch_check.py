# usage: tools/patch_check.py <patch.diff> <PROP> [...]: run the named checks in memory on the patched tree
import sys, pathlib
sys.path.insert(0, "/verif")
from sa.check import _mutant_job
from sa.core import Repo
from sa.mutate import apply_diff
repo = Repo()
ov = apply_diff(pathlib.Path(sys.argv[1]).read_text(), repo.src)
for p in sys.argv[2:]:
    name, status, payload = _mutant_job((p, p, ",".join(ov), ov, None, False))
    print(p, status, (payload[:2] if isinstance(payload, list) else str(payload)[:600]))
