#!/venv/bin/python
"""Re-run every claimed check on every confirmed seeded change, in memory
(mutate.apply_diff overlays, 16 workers) and refresh caught_by /
analysis_error_in in each meta.json.  Equivalent to `seed_eval.py --recheck`
(which patches a scratch worktree) but takes minutes instead of an hour.

usage: tools/seed_recheck_fast.py [--only C03,C06]   (properties to run)
"""
import json
import multiprocessing as mp
import pathlib
import sys
import time

VERIF = pathlib.Path(__file__).resolve().parent.parent
sys.path.insert(0, str(VERIF))
from sa.check import _mutant_job  # noqa: E402
from sa.core import Repo  # noqa: E402
from sa.mutate import StaleEdit, apply_diff  # noqa: E402


def main():
    only = None
    if "--only" in sys.argv:
        only = set(sys.argv[sys.argv.index("--only") + 1].split(","))
    man = json.loads((VERIF / "MANIFEST.json").read_text())
    props = [c["property_id"] for c in man["checks"]
             if only is None or c["property_id"] in only]
    repo = Repo()
    jobs = []
    metas = {}
    for d in sorted((VERIF / "seeded").iterdir()):
        try:
            ov = apply_diff((d / "patch.diff").read_text(), repo.src)
        except StaleEdit as e:
            print(d.name, "patch does not apply:", e)
            continue
        metas[d.name] = json.loads((d / "meta.json").read_text())
        for p in props:
            jobs.append((p, f"{d.name}|{p}", ",".join(ov), ov, None, False))
    with mp.get_context("fork").Pool(16) as pool:
        results = pool.map(_mutant_job, jobs, chunksize=4)
    out = {}
    for name, status, payload in results:
        dn, p = name.split("|")
        out.setdefault(dn, {})[p] = (status, payload)
    for dn, res in sorted(out.items()):
        m = metas[dn]
        caught = set(m.get("caught_by", [])) if only else set()
        broken = set(m.get("analysis_error_in", [])) if only else set()
        for p, (status, payload) in res.items():
            caught.discard(p)
            broken.discard(p)
            if status == "ok" and payload:
                caught.add(p)
            elif status != "ok":
                broken.add(p)
            cq = m.setdefault("checks_quick_on_patched_tree", {})
            cq[p] = {"rc": 1 if status == "ok" and payload else
                     0 if status == "ok" else 2,
                     "reports": [f"{r} {k}: {msg}"[:300]
                                 for (r, k, msg) in payload[:6]]
                     if status == "ok" else [str(payload)[:300]]}
        m["caught_by"] = sorted(caught)
        m["analysis_error_in"] = sorted(broken)
        m["rechecked_at"] = time.strftime("%Y-%m-%d %H:%M:%S")
        (VERIF / "seeded" / dn / "meta.json").write_text(
            json.dumps(m, indent=1))
        own = m["property"] in m["caught_by"]
        print(dn, "caught by", m["caught_by"],
              "own check" if own else "NOT by own check",
              "exit2", m["analysis_error_in"])


if __name__ == "__main__":
    main()
