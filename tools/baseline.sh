#!/bin/bash
# Run the repository's pinned suite (guard off; there are no hooks) and compare
# with the stable_pass list of /root/.vp/BASELINE.json.
# usage: tools/baseline.sh [-n JOBS]
J=${2:-16}
REPO=${REPO:-/repo}
OUT=$(mktemp /tmp/baseline.XXXX.xml)
cd $REPO && PYTHONPATH=$REPO /venv/bin/python -m pytest -q -p no:cacheprovider --timeout=900 \
  --continue-on-collection-errors -n "$J" --junitxml="$OUT" >/dev/null 2>&1
/venv/bin/python - "$OUT" <<'PY'
import json, sys, xml.etree.ElementTree as ET
b = json.load(open('/root/.vp/BASELINE.json'))
want = set(b['stable_pass'])
got = {}
for tc in ET.parse(sys.argv[1]).getroot().iter('testcase'):
    name = f"{tc.get('classname')}::{tc.get('name')}"
    bad = any(ch.tag in ('failure', 'error', 'skipped') for ch in tc)
    got[name] = not bad
missing = sorted(n for n in want if not got.get(n, False))
print(f"stable_pass={len(want)} passing_now={len(want)-len(missing)} regressions={len(missing)}")
for m in missing[:40]:
    print("  REGRESSION", m, "(absent)" if m not in got else "")
sys.exit(1 if missing else 0)
PY
rc=$?
rm -f "$OUT"
exit $rc
