#!/usr/bin/env python3-vt
"""Validate MANIFEST.json and evidence/*.json against the schemas"""
import json, sys, pathlib, jsonschema
V = pathlib.Path(__file__).resolve().parent.parent
ms = json.load(open('/root/.vp/MANIFEST.schema.json'))
es = json.load(open('/root/.vp/EVIDENCE.schema.json'))
m = json.load(open(V / 'MANIFEST.json'))
jsonschema.validate(m, ms)
bad = 0
for c in m['checks']:
    p = V / c['evidence_file']
    if not p.exists():
        print('missing evidence', p); bad += 1; continue
    try:
        jsonschema.validate(json.load(open(p)), es)
    except jsonschema.ValidationError as e:
        print('invalid', p, e.message[:200]); bad += 1
print('manifest ok; checks', len(m['checks']), 'na', len(m.get('not_applicable', [])), 'bad evidence', bad)
sys.exit(1 if bad else 0)
