#!/venv/bin/python
"""Run every claimed quick check against behaviour-preserving refactorings
produced by independent sub-agents (false-alarm test).

usage: tools/refactor_eval.py <rfout dir> [<rfout dir> ...]
Prints one line per refactoring: which checks exit 1 (false alarm) or
exit 2 (analysis error = idiom not recognised).
"""
import json
import os
import pathlib
import subprocess
import sys

VERIF = pathlib.Path(__file__).resolve().parent.parent


def sh(cmd):
    return subprocess.run(cmd, shell=True, capture_output=True, text=True)


def main():
    wt = pathlib.Path(f"/tmp/rfeval_{os.getpid()}")
    sh(f"{VERIF}/tools/mkworktree.sh {wt}")
    man = json.loads((VERIF / "MANIFEST.json").read_text())
    env = dict(os.environ, DCLAB_VERIF_REPO=str(wt), VERIF_NO_EVIDENCE="1")
    try:
        for d in sys.argv[1:]:
            d = pathlib.Path(d).resolve()
            for diff in sorted(d.glob("refactor*.diff")):
                sh(f"git -C {wt} checkout -- .")
                ap = sh(f"git -C {wt} apply {diff}")
                if ap.returncode:
                    print(d.name, diff.name, "does not apply",
                          ap.stderr[:100])
                    continue
                alarms, errors = [], []
                for c in man["checks"]:
                    r = subprocess.run(c["quick_cmd"], shell=True, cwd=VERIF,
                                       env=env, capture_output=True,
                                       text=True)
                    if r.returncode == 1:
                        alarms.append((c["property_id"], [
                            l[:260] for l in r.stdout.splitlines()
                            if l.startswith("R")][:3]))
                    elif r.returncode != 0:
                        errors.append((c["property_id"], [
                            l[:260] for l in r.stdout.splitlines()
                            if "ANALYSIS-ERROR" in l][:2]))
                print(d.name, diff.name,
                      "OK" if not alarms and not errors else "",
                      "ALARM " + json.dumps(alarms) if alarms else "",
                      "EXIT2 " + json.dumps(errors) if errors else "")
                sys.stdout.flush()
    finally:
        sh(f"git -C /repo worktree remove --force {wt}")


if __name__ == "__main__":
    main()
