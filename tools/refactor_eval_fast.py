#!/venv/bin/python
"""False-alarm test, in memory: every claimed check on every
behaviour-preserving refactoring diff found in the given directories
(mutate.apply_diff overlays, 16 workers).

usage: tools/refactor_eval_fast.py <dir with refactor*.diff> [...]
Prints one line per diff: OK, or ALARM (violation = false alarm) / EXIT2
(analysis error = idiom not recognised) with the reporting rules.
"""
import json
import multiprocessing as mp
import pathlib
import sys

VERIF = pathlib.Path(__file__).resolve().parent.parent
sys.path.insert(0, str(VERIF))
from sa.check import _mutant_job  # noqa: E402
from sa.core import Repo  # noqa: E402
from sa.mutate import StaleEdit, apply_diff  # noqa: E402


def main():
    man = json.loads((VERIF / "MANIFEST.json").read_text())
    props = [c["property_id"] for c in man["checks"]]
    repo = Repo()
    jobs = []
    names = []
    for d in sys.argv[1:]:
        d = pathlib.Path(d).resolve()
        for diff in sorted(d.glob("refactor*.diff")):
            name = f"{d.parent.name}/{d.name}/{diff.name}"
            try:
                ov = apply_diff(diff.read_text(), repo.src)
            except StaleEdit as e:
                print(name, "does not apply:", e)
                continue
            names.append(name)
            for p in props:
                jobs.append((p, f"{name}|{p}", ",".join(ov), ov, None, True))
    with mp.get_context("fork").Pool(16) as pool:
        results = pool.map(_mutant_job, jobs, chunksize=4)
    out = {}
    for name, status, payload in results:
        dn, p = name.split("|")
        out.setdefault(dn, {})[p] = (status, payload)
    for dn in names:
        alarms = [(p, [f"{r} {k}: {m}"[:240] for r, k, m in pl[:3]])
                  for p, (st, pl) in sorted(out[dn].items())
                  if st == "ok" and pl]
        errors = [(p, str(pl)[:200]) for p, (st, pl) in sorted(
            out[dn].items()) if st != "ok"]
        print(dn, "OK" if not alarms and not errors else "",
              "ALARM " + json.dumps(alarms) if alarms else "",
              "EXIT2 " + json.dumps(errors) if errors else "")


if __name__ == "__main__":
    main()
