#!/bin/bash
# usage: tools/mkworktree.sh <dir>   – scratch git worktree of /repo (HEAD) that can be
# imported/tested with PYTHONPATH=<dir>; copies the ignored build artefacts (.so, _version.py)
set -e
D=$1
git -C /repo worktree add --detach -f "$D" HEAD >/dev/null 2>&1
cd /repo
for f in $(git status --short --ignored | awk '$1=="!!"{print $2}' | grep -E '\.so$|_version\.py$'); do
  mkdir -p "$D/$(dirname $f)"; cp "$f" "$D/$f"
done
echo "worktree at $D; run tests with: cd $D && PYTHONPATH=$D /venv/bin/python -m pytest tests/..."
