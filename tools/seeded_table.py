#!/venv/bin/python
"""Print the markdown table of seeded changes (for DESIGN.md §7.5)"""
import json, pathlib
V = pathlib.Path(__file__).resolve().parent.parent
print("| id | breaks | change (file; idea) | needs | reported by |")
print("|---|---|---|---|---|")
for d in sorted((V / "seeded").iterdir(), key=lambda p: (p.name.split("_")[0], int(p.name.split("_")[1]))):
    m = json.loads((d / "meta.json").read_text())
    what = " ".join((m.get("breaks") or "").split())
    needs = " ".join((m.get("needs") or "").split())
    files = ", ".join(pathlib.Path(f).name for f in (m.get("files") or []))
    rep = []
    for p in m.get("caught_by", []):
        r = m["checks_quick_on_patched_tree"][p]["reports"]
        rule = r[0].split()[0] if r else "?"
        rep.append(f"{p} ({rule})")
    cut = lambda s, n: s if len(s) <= n else s[:n - 1] + "…"
    print(f"| {d.name} | {m['property']} | {files}: {cut(what, 170)} | {cut(needs, 110)} | {', '.join(rep)} |")
